"""C18 -- request URLs are reconstructed faithfully and edited component-wise.

Real code run: URL.__init__ (scope / environ / url / **components), URL._build_url, URL.replace (netloc surgery),
include/replace/remove_query_params, URL.__repr__, and -- underneath, unmodified -- urllib.parse.urlsplit / SplitResult /
parse_qsl / urlencode on real strings.

Symbolic characters reach urllib as *real* characters whenever they are one of the code points URL syntax cares about
(the engine forks on each such "sensitive" code point and materialises it); every other character travels as a
placeholder, which is sound because neither baize nor urllib inspects it.  Ports are symbolic integers.
Enumerated: scheme, presence of server / Host header / root path / query, base-URL shapes (named / IPv4 / IPv6 host,
with and without user, password, port), the subset of components replaced.
"""
from __future__ import annotations

import itertools
from typing import Any, Dict, List, Optional, Tuple
from urllib.parse import urlsplit

import z3

import baize.datastructures as DS
from baize.datastructures import URL

from engine import report
from engine.forksym import Engine, SInt, Unsupported, conc, cur, term_of
from engine.shims import Shims
from engine.symseq import SStr, _items_of

from . import gw

PID = "C18"
# code points that URL parsing (urlsplit, parse_qsl, baize's netloc surgery) treats specially
URL_SENSITIVE = tuple(sorted(set(range(0, 33)) | {ord(c) for c in "/?#@:[]%&=+;\\"} | {127}))

META = {
    "functions": lambda: [URL.__init__, URL._build_url, URL.replace, URL.include_query_params, URL.replace_query_params, URL.remove_query_params,
                          URL.__repr__, URL.__str__, URL.__eq__],
    "engines": ["E-FS (forksym): sensitive code points materialised by forks, other characters as placeholders through the real urllib.parse"],
    "stubs": ["none: urllib.parse runs unmodified on real strings"],
    "assumptions": ["symbolic characters are printable ASCII / Latin-1 as stated per job; text given for a component contains no delimiter of a LATER "
                    "component (a caller must percent-encode those), passwords may contain '@' and ':'",
                    "WSGI/ASGI comparison of paths is done for ASCII paths (a WSGI environ carries UTF-8 bytes re-decoded as Latin-1)"],
    "bounds": {"quick": {"chars": 2}, "thorough": {"chars": 3}},
    "outside": ["longer component texts", "IDNA / non-ASCII hosts", "base URLs outside the enumerated shapes"],
    "expect_kinds": {"all": ["ok"]},
}


class Fail(Exception):
    def __init__(self, klass, detail=""):
        self.klass, self.detail = klass, detail


def its(x) -> List[Any]:
    """items of a str with placeholders / tokens, or None"""
    if x is None:
        return None
    return gw.text_items(x)


def same(e: Engine, a, b) -> bool:
    if a is None or b is None:
        return a is None and b is None
    return gw.same_items(e, a if isinstance(a, list) else its(a), b if isinstance(b, list) else its(b))


def render(s) -> str:
    """real str for a symbolic text (sensitive code points become real characters)"""
    return str(s) if isinstance(s, SStr) else s


def restrict(eng: Engine, s: SStr, allowed: str = None, banned: str = ""):
    for c in s.items:
        if allowed is not None:
            eng.solver.add(z3.Or([c.e == ord(ch) for ch in allowed]))
        else:
            eng.solver.add(c.e >= 33, c.e <= 126)
        for ch in banned:
            eng.solver.add(c.e != ord(ch))


HOSTCHARS = "abcxyz019.-"
DEFAULT = {"http": 80, "https": 443, "ws": 80, "wss": 443}


# ------------------------------------------------------------------ build from scope / environ
def job_build(job) -> report.JobResult:
    res = report.JobResult.new(job["name"])
    twin = job.get("twin", False)
    scheme, has_server, has_host, root, has_query, n = job["scheme"], job["server"], job["host"], job["root"], job["query"], job["n"]
    eng = Engine(budget_s=900)
    eng.render_opaque = True
    eng.char_alphabet = "c1"
    # every character of the concrete ROOT PATH is sensitive as well: a symbolic path character equal to one of them must be that
    # character in the text the code sees (e.g. a path that starts with the root path), not an opaque placeholder
    eng.sensitive_chars = tuple(sorted(set(URL_SENSITIVE) | {ord(c) for c in root}))
    if job.get("ipv6"):
        # urlsplit validates a bracketed host as an IP address: the hex digit must be the real character in the text, not a placeholder
        eng.sensitive_chars = tuple(sorted(set(eng.sensitive_chars) | {ord(c) for c in "0123456789abcdef"}))
    port_v = z3.Int("port")
    eng.solver.add(port_v >= 1, port_v <= 65535)
    if job.get("ipv6"):
        # the server listens on an IPv6 address ("::" + hex digit, e.g. ::1): servers hand the bare literal over, a URL needs it in brackets
        hx = SStr.fresh(1, "h", 0, 127, eng.solver)
        restrict(eng, hx, "0123456789abcdef")
        host = SStr([58, 58] + hx.items)
    else:
        host = SStr.fresh(2, "h", 0, 127, eng.solver)
        restrict(eng, host, HOSTCHARS)
        eng.solver.add(host.items[0].e != ord("."), host.items[0].e != ord("-"))
    hhost = SStr.fresh(1, "hh", 0, 127, eng.solver)
    restrict(eng, hhost, HOSTCHARS.replace(".", "").replace("-", ""))
    path = SStr.fresh(n, "p", 0, 127, eng.solver)
    restrict(eng, path, banned="" if job.get("any_path") else "?#%\\")
    if not (has_server or has_host) and n:
        eng.solver.add(path.items[0].e != 47)  # without any authority a path starting with '//' IS an authority: outside the statement
    query = "a=1&b=x" if has_query else ""

    def build_both():
        p = "/" + render(path)
        sc: Dict[str, Any] = {"type": "http", "scheme": scheme, "path": p, "root_path": root, "query_string": query.encode(),
                              "headers": [(b"user-agent", b"probe"), (b"accept", b"*/*")]}  # Host is rarely the first header a server hands over
        env: Dict[str, Any] = {"wsgi.url_scheme": scheme, "PATH_INFO": p, "SCRIPT_NAME": root, "QUERY_STRING": query,
                               "SERVER_NAME": render(host), "SERVER_PORT": SInt(port_v)}
        if has_server:
            sc["server"] = (render(host), SInt(port_v))
        if has_host:
            hv = render(hhost) + ".example"
            sc["headers"].append((b"host", hv.encode("latin-1")))
            env["HTTP_HOST"] = hv
        return URL(scope=sc), URL(environ=env)

    def fn():
        e = cur()
        ua, uw = build_both()
        # expected text per the statement
        exp: List[Any] = []
        if has_host:
            exp = its(scheme + "://") + hhost.items + its(".example")
        elif has_server:
            exp = its(scheme + "://") + (([91] + host.items + [93]) if job.get("ipv6") else host.items)
            if not (SInt(port_v) == DEFAULT[scheme]):
                exp = exp + [58] + ["PORT"]
        exp_path = its(root) + [47] + path.items
        got_a = its(str(ua))
        # compare piecewise: authority, then path, then query
        if has_server or has_host:
            authority_len = len(exp)
            ga = got_a[:authority_len]
            for i, (x, y) in enumerate(zip(ga, exp)):
                if y == "PORT":
                    t = e.term_of_text(str(ua)[i]) if isinstance(str(ua)[i], str) else None
                    if t is None or e.check(t != port_v):
                        raise Fail("port-wrong-or-missing")
                elif not same(e, [x], [y]):
                    raise Fail("authority-wrong", f"position {i}")
            rest = got_a[authority_len:]
        else:
            rest = got_a
        want_rest = exp_path + (its("?" + query) if has_query else [])
        if not same(e, rest, want_rest):
            raise Fail("path-or-query-wrong", f"{len(rest)} vs {len(want_rest)} characters after the authority")
        if has_server:
            if not same(e, str(ua), str(uw)):
                raise Fail("wsgi-asgi-urls-differ")
        c = ua.components
        if not same(e, c.path, exp_path):
            raise Fail("path-component-not-faithful", "the parsed path component differs from root path + path")
        if not same(e, c.query, query):
            raise Fail("query-component-not-faithful")
        if (has_server or has_host) and c.scheme != scheme:
            raise Fail("scheme-component")
        if twin:
            raise Fail("twin-assert-false")
        return "ok"

    def desc(m):
        return {"scheme": scheme, "server": has_server, "host_header": has_host, "root": root, "query": query,
                "host": conc(host, m), "header_host": conc(hhost, m) + ".example", "port": m.eval(port_v, True).as_long(), "path": "/" + conc(path, m)}

    def concrete(w):
        sc = {"type": "http", "scheme": w["scheme"], "path": w["path"], "root_path": w["root"], "query_string": w["query"].encode(),
              "headers": [(b"user-agent", b"probe"), (b"accept", b"*/*")]}
        env = {"wsgi.url_scheme": w["scheme"], "PATH_INFO": w["path"], "SCRIPT_NAME": w["root"], "QUERY_STRING": w["query"],
               "SERVER_NAME": w["host"], "SERVER_PORT": str(w["port"])}
        if w["server"]:
            sc["server"] = (w["host"], w["port"])
        if w["host_header"]:
            sc["headers"].append((b"host", w["header_host"].encode()))
            env["HTTP_HOST"] = w["header_host"]
        try:
            ua, uw = URL(scope=sc), URL(environ=env)
        except Exception as ex:  # noqa: BLE001
            return f"exception {type(ex).__name__}: {ex}"
        auth = ""
        if w["host_header"]:
            auth = f"{w['scheme']}://{w['header_host']}"
        elif w["server"]:
            auth = f"{w['scheme']}://" + (f"[{w['host']}]" if ":" in w["host"] else w["host"]) + ("" if w["port"] == DEFAULT[w["scheme"]] else f":{w['port']}")
        want = auth + w["root"] + w["path"] + ("?" + w["query"] if w["query"] else "")
        if str(ua) != want:
            return f"ASGI url {str(ua)!r}, expected {want!r}"
        if w["server"] and str(uw) != str(ua):
            return f"WSGI url {str(uw)!r} vs ASGI {str(ua)!r}"
        if ua.path != w["root"] + w["path"] or ua.query != w["query"]:
            return f"components path={ua.path!r} query={ua.query!r}; expected {w['root'] + w['path']!r} / {w['query']!r}"
        return None
    return _run(res, job, eng, fn, desc, concrete, twin)


def _run(res, job, eng, fn, desc, concrete, twin):
    from engine.shims import int_shim
    shims = Shims().add(DS, int=int_shim)

    def on_path(e, r):
        kind, v = r
        klass = detail = None
        if kind == "exc":
            if isinstance(v, Fail):
                klass, detail = v.klass, v.detail
            else:
                klass, detail = f"exception:{type(v).__name__}", repr(v)
        if klass not in ("port-wrong-or-missing",):
            e.last_sat = False
        m = e.witness()
        wit = desc(m)
        with shims.off():
            cp = concrete(wit)
        if klass is not None:
            key = klass if klass.startswith("exception:") else klass
            if klass in ("path-component-not-faithful", "path-or-query-wrong", "query-component-not-faithful") and isinstance(wit.get("path"), str):
                key += "/decoded-delimiter-in-path" if any(ch in wit["path"] for ch in "?#") else "/plain-path"
            res.violation(f"C18/{job['kind']}/{key}", wit, f"{klass} {detail}; concrete: {cp}", (cp is not None) or twin)
            return
        res.kind("ok")
        if cp is not None:
            res["harness_errors"].append(f"symbolic path holds but the concrete run fails: {wit}: {cp}")
        res["validated"] += 1
        res.sample(wit, limit=1)
    with shims:
        eng.explore(fn, on_path)
    res.absorb_engine(eng)
    return res


# ------------------------------------------------------------------ replace
BASES = ["http://example.org/p?q=1#f", "https://u@h.example:8443/a/b", "https://bob:pw@10.0.0.1/x?y", "http://[::1]:8000/", "http://[2001:db8::1]/r#z",
         "ws://al:s3@[fe80::1]:81/c", "https://example.org",
         "http://example.org:/p", "https://u:pw@[::1]:/x"]  # an empty port after the colon is legal (RFC 3986: port = *DIGIT)
FIELDS = ["scheme", "path", "query", "fragment", "username", "password", "hostname", "port"]


def job_replace(job) -> report.JobResult:
    res = report.JobResult.new(job["name"])
    twin = job.get("twin", False)
    base, fields, n = BASES[job["base"]], job["fields"], job["n"]
    eng = Engine(budget_s=900)
    eng.render_opaque = True
    eng.char_alphabet = "c1"
    eng.sensitive_chars = URL_SENSITIVE
    sym: Dict[str, Any] = {}
    for f in fields:
        if f == "port":
            v = z3.Int("newport")
            eng.solver.add(v >= 0, v <= 65535)
            sym[f] = SInt(v)
        elif f == "scheme":
            sym[f] = "ftp"
        elif f == "hostname":
            s = SStr.fresh(max(1, n), "host", 0, 127, eng.solver)
            restrict(eng, s, HOSTCHARS)
            eng.solver.add(s.items[0].e != ord("."), s.items[0].e != ord("-"), s.items[-1].e != ord("."))
            sym[f] = s
        else:
            s = SStr.fresh(n, f[:2], 0, 127, eng.solver)
            banned = {"path": "?#\\", "query": "#", "fragment": "", "username": ":/?#[]\\@", "password": "/?#[]\\"}[f]
            restrict(eng, s, banned=banned + "%")
            sym[f] = s

    def fn():
        e = cur()
        u = URL(base)
        kw = {}
        for f in fields:
            v = sym[f]
            kw[f] = ("/" + render(v)) if f == "path" else render(v) if isinstance(v, SStr) else v
        old = u.components
        if "password" in kw and "username" not in kw and old.username is None:
            # a password needs a user name: outside the statement
            return "ok"
        r = u.replace(**dict(kw))
        c = r.components
        exp = {"scheme": old.scheme, "path": old.path, "query": old.query, "fragment": old.fragment, "username": old.username,
               "password": old.password, "hostname": old.hostname, "port": old.port}
        for f in fields:
            exp[f] = kw[f]
        got = {"scheme": c.scheme, "path": c.path, "query": c.query, "fragment": c.fragment, "username": c.username, "password": c.password,
               "hostname": c.hostname}
        for f, g in got.items():
            want = exp[f]
            if f == "hostname" and isinstance(want, str):
                want = want.lower()
            if not same(e, g, want):
                raise Fail(f"{f}-component-wrong", f"after replacing {fields} on {base!r}: {f} is {conc(g, e.witness()) if g is not None else None!r}")
        # port: compare through the netloc text (SplitResult.port cannot parse a rendered symbolic number)
        netloc = c.netloc
        tail = netloc.rsplit("]", 1)[-1] if "]" in netloc else netloc.rpartition("@")[2]
        ptxt = tail.rpartition(":")[2] if ":" in tail else None
        want_port = exp["port"]
        if want_port is None:
            if ptxt not in (None, ""):
                raise Fail("port-component-wrong", "a port appeared")
        else:
            t = e.term_of_text(ptxt) if ptxt else None
            if t is None or e.check(t != term_of(want_port)):
                raise Fail("port-component-wrong", f"netloc {netloc!r}")
            if tail.count(":") != 1:  # host ':' port and nothing else after the user info / the bracketed literal
                raise Fail("port-component-wrong", f"netloc {netloc!r} has more than one colon before the port")
        if twin:
            raise Fail("twin-assert-false")
        return "ok"

    def desc(m):
        return {"base": base, "replace": {f: (conc(v, m) if isinstance(v, SStr) else m.eval(v.e, True).as_long() if isinstance(v, SInt) else v) for f, v in sym.items()}}

    def concrete(w):
        u = URL(w["base"])
        kw = dict(w["replace"])
        if "path" in kw:
            kw["path"] = "/" + kw["path"]
        old = u.components
        if "password" in kw and "username" not in kw and old.username is None:
            return None
        try:
            r = u.replace(**dict(kw))
            c = r.components
            got = {"scheme": c.scheme, "path": c.path, "query": c.query, "fragment": c.fragment, "username": c.username, "password": c.password,
                   "hostname": c.hostname, "port": c.port}
        except Exception as ex:  # noqa: BLE001
            return f"exception {type(ex).__name__}: {ex}"
        exp = {"scheme": old.scheme, "path": old.path, "query": old.query, "fragment": old.fragment, "username": old.username,
               "password": old.password, "hostname": old.hostname, "port": old.port}
        exp.update(kw)
        if isinstance(exp["hostname"], str):
            exp["hostname"] = exp["hostname"].lower()
        if got != exp:
            return f"got {got} expected {exp}"
        return None
    return _run(res, job, eng, fn, desc, concrete, twin)


# ------------------------------------------------------------------ repr hides the password
def job_repr(job) -> report.JobResult:
    res = report.JobResult.new(job["name"])
    twin = job.get("twin", False)
    n = job["n"]
    eng = Engine(budget_s=900)
    eng.char_alphabet = "c1"
    eng.sensitive_chars = URL_SENSITIVE
    pw = SStr.fresh(n, "pw", 0, 127, eng.solver)
    restrict(eng, pw, banned="/?#[]\\%*")
    user = job["user"]
    host = job["hostpart"]

    def fn():
        e = cur()
        u = URL(f"https://{user}:{render(pw)}@{host}/p?x=1")
        if not same(e, u.password, pw.items):
            raise Fail("password-not-parsed-as-given")
        try:
            text = its(repr(u))
        except ValueError:
            if job.get("badport"):
                return "ok"  # a URL whose port is not a port: refusing to print it discloses nothing
            raise
        k = len(pw.items)
        for i in range(len(text) - k + 1):
            win = text[i:i + k]
            conds = [term_of(a) == term_of(b) for a, b in zip(win, pw.items)]
            if e.check(z3.And(conds)):
                # allowed only if that occurrence is part of the fixed text around (user, host, path), i.e. coincidence with public parts
                public = its(f"URL('https://{user}:********@{host}/p?x=1')")
                if len(text) == len(public) and same(e, text, public):
                    continue
                raise Fail("password-leaks-into-repr")
        public = its(f"URL('https://{user}:********@{host}/p?x=1')")
        if not same(e, text, public):
            raise Fail("repr-not-the-masked-url")
        if twin:
            raise Fail("twin-assert-false")
        return "ok"

    def desc(m):
        return {"user": user, "password": conc(pw, m), "host": host}

    def concrete(w):
        try:
            r = repr(URL(f"https://{w['user']}:{w['password']}@{w['host']}/p?x=1"))
        except ValueError as ex:
            return None if job.get("badport") else f"exception ValueError: {ex}"
        except Exception as ex:  # noqa: BLE001
            return f"exception {type(ex).__name__}: {ex}"
        if r != f"URL('https://{w['user']}:********@{w['host']}/p?x=1')":
            return f"repr is {r}"
        return None
    return _run(res, job, eng, fn, desc, concrete, twin)


# ------------------------------------------------------------------ query helpers
def job_query(job) -> report.JobResult:
    res = report.JobResult.new(job["name"])
    twin = job.get("twin", False)
    op, n = job["op"], job["n"]
    base = job["baseq"]
    eng = Engine(budget_s=900)
    eng.char_alphabet = "c1"
    eng.sensitive_chars = URL_SENSITIVE
    val = SStr.fresh(n, "v", 0, 127, eng.solver)
    restrict(eng, val, allowed="abcXYZ019-._~")

    def expected_pairs():
        from urllib.parse import parse_qsl
        pairs = parse_qsl(base, keep_blank_values=True)
        if op == "include":
            if any(k == "a" for k, _ in pairs):
                out, done = [], False
                for k, v in pairs:
                    if k == "a":
                        if not done:
                            out.append(("a", "VAL"))
                            done = True
                    else:
                        out.append((k, v))
                return out
            return pairs + [("a", "VAL")]
        if op == "replace":
            return [("a", "VAL")]
        return [(k, v) for k, v in pairs if k != "a"]

    def fn():
        e = cur()
        u = URL("https://h.example/p?" + base + "#frag") if base else URL("https://h.example/p#frag")
        v = render(val)
        if job.get("earlier"):
            # URL objects are values: what an earlier helper call on the SAME object returned must not show in this one
            u.include_query_params(zz="9")
            u.remove_query_params("a")
        if op == "include":
            r = u.include_query_params(a=v)
        elif op == "replace":
            r = u.replace_query_params(a=v)
        else:
            r = u.remove_query_params("a")
        from urllib.parse import parse_qsl
        got = parse_qsl(r.query, keep_blank_values=True)
        exp = expected_pairs()
        if len(got) != len(exp):
            raise Fail("query-pairs-count", f"{got} vs {exp}")
        for (gk, gv), (xk, xv) in zip(got, exp):
            if gk != xk or not same(e, gv, val.items if xv == "VAL" else xv):
                raise Fail("query-pair-wrong", f"{gk}")
        if r.path != "/p" or r.fragment != "frag" or r.netloc != "h.example":
            raise Fail("other-components-changed")
        if twin:
            raise Fail("twin-assert-false")
        return "ok"

    def desc(m):
        return {"op": op, "base_query": base, "value": conc(val, m)}

    def concrete(w):
        from urllib.parse import parse_qsl
        u = URL("https://h.example/p?" + w["base_query"] + "#frag") if w["base_query"] else URL("https://h.example/p#frag")
        if job.get("earlier"):
            u.include_query_params(zz="9")
            u.remove_query_params("a")
        try:
            r = {"include": lambda: u.include_query_params(a=w["value"]), "replace": lambda: u.replace_query_params(a=w["value"]),
                 "remove": lambda: u.remove_query_params("a")}[w["op"]]()
        except Exception as ex:  # noqa: BLE001
            return f"exception {type(ex).__name__}: {ex}"
        exp = [(k, (w["value"] if v == "VAL" else v)) for k, v in expected_pairs()]
        got = parse_qsl(r.query, keep_blank_values=True)
        if got != exp:
            return f"query {got} expected {exp}"
        return None
    return _run(res, job, eng, fn, desc, concrete, twin)


def jobs(tier: str):
    n = META["bounds"][tier]["chars"]
    out = []
    for scheme in DEFAULT:
        for server, host in ((True, False), (True, True), (False, True), (False, False)):
            for root in ("", "/r"):
                for q in (False, True):
                    if scheme in ("ws", "wss") and (root or q):
                        continue
                    out.append(dict(name=f"build/{scheme}/srv{int(server)}host{int(host)}/root{len(root)}/q{int(q)}", kind="build", scheme=scheme, server=server,
                                    host=host, root=root, query=q, n=min(n, 2)))
    for scheme in ("http", "https", "ws"):
        out.append(dict(name=f"build/{scheme}/ipv6-server-address/no-host-header", kind="build", scheme=scheme, server=True, host=False, root="", query=True, n=1, ipv6=True))
    out.append(dict(name="build/http/ipv6-server-address/host-header", kind="build", scheme="http", server=True, host=True, root="/r", query=False, n=1, ipv6=True))
    out.append(dict(name="build/http/any-path", kind="build", scheme="http", server=True, host=False, root="", query=True, n=1, any_path=True))
    for b in range(len(BASES)):
        for f in FIELDS:
            out.append(dict(name=f"replace/base{b}/{f}", kind="replace", base=b, fields=[f], n=n if f in ("password",) else min(n, 2)))
        for combo in (["username", "password"], ["hostname", "port"], ["path", "query", "fragment"], ["scheme", "port"], ["password", "port"]):
            out.append(dict(name=f"replace/base{b}/{'+'.join(combo)}", kind="replace", base=b, fields=combo, n=1, weight=50))
    for user in ("bob", "a.b"):
        for hostpart in ("example.org", "[::1]:8080", "h:81"):
            for k in range(1, n + 2):
                out.append(dict(name=f"repr/{user}@{hostpart}/pw{k}", kind="repr", user=user, hostpart=hostpart, n=k, weight=10 ** k))
    for hostpart in ("h:99999", "h:8o8o", "[::1]:https"):  # an authority whose port is out of range / not a number
        out.append(dict(name=f"repr/bob@{hostpart}/pw2/invalid-port", kind="repr", user="bob", hostpart=hostpart, n=2, badport=True, weight=100))
    for op in ("include", "replace", "remove"):
        for baseq in ("", "a=1", "b=2&a=1&a=3&c=", "x=%26&a=+", "a=0&a=1&a=2&b=3", "t=x&a=1&a=&p=1&a=z&a=y&s=up",
                      "n=caf%C3%A9&a=1&m=%E2%82%AC+5"):  # percent-encoded non-ASCII text in parameters the helper does not touch
            for k in range(0, n + 1):
                out.append(dict(name=f"query/{op}/{baseq or 'none'}/v{k}", kind="query", op=op, baseq=baseq, n=k))
        out.append(dict(name=f"query/{op}/b=2&a=1&a=3&c=/v1/after-earlier-helper-calls", kind="query", op=op, baseq="b=2&a=1&a=3&c=", n=1, earlier=True))
    for iface in ("wsgi", "asgi"):
        out.append(dict(name=f"request-subclass/{iface}/url-override-built-on-super", kind="subclass", iface=iface))
    out.append(dict(name="twin/replace", kind="replace", base=0, fields=["path"], n=1, twin=True))
    return out


# ------------------------------------------------------------------ request.url through a user subclass (proxy-aware URL)
def subclass_url(iface: str, port: int, proto: str):
    """a Request subclass of the kind deployments behind a proxy write: url = super().url with scheme / host taken from forwarded headers"""
    import baize.asgi.requests as AQ
    import baize.wsgi.requests as WQ
    from baize.utils import cached_property
    Base = WQ.Request if iface == "wsgi" else AQ.Request

    class ProxiedRequest(Base):
        @cached_property
        def url(self):
            return super().url.replace(scheme=self.headers.get("x-forwarded-proto", "http"), hostname="shop.example", port=None)
    if iface == "wsgi":
        req = ProxiedRequest({"REQUEST_METHOD": "GET", "wsgi.url_scheme": "http", "SERVER_NAME": "10.0.0.5", "SERVER_PORT": str(port), "PATH_INFO": "/cart",
                              "SCRIPT_NAME": "/app", "QUERY_STRING": "a=1", "HTTP_X_FORWARDED_PROTO": proto})
    else:
        req = ProxiedRequest({"type": "http", "method": "GET", "scheme": "http", "server": ("10.0.0.5", port), "path": "/cart", "root_path": "/app",
                              "query_string": b"a=1", "headers": [(b"x-forwarded-proto", proto.encode())]})
    first, second = req.url, req.url
    return str(first), first is second


def job_subclass(job) -> report.JobResult:
    res = report.JobResult.new(job["name"])
    twin = job.get("twin", False)
    iface = job["iface"]
    eng = Engine(budget_s=300)

    def verdict(text, same_obj, port, proto):
        want = f"{proto}://shop.example/app/cart?a=1"
        if text != want:
            raise Fail("subclass-url-not-the-override", f"{text!r}, the override returns {want!r}")
        if not same_obj:
            raise Fail("subclass-url-not-cached")

    def fn():
        e = cur()
        port = [80, 8080][e.choose(2, "port")]
        proto = ["https", "http"][e.choose(2, "proto")]
        e.path_notes.update(port=port, proto=proto)
        verdict(*subclass_url(iface, port, proto), port, proto)
        if twin:
            raise Fail("twin-assert-false")
        return "ok"

    def desc(m):
        return {"iface": iface, "port": cur().path_notes.get("port"), "proto": cur().path_notes.get("proto")}

    def concrete(w):
        prev = Engine.cur
        Engine.cur = None
        try:
            verdict(*subclass_url(w["iface"], w["port"], w["proto"]), w["port"], w["proto"])
            return None
        except Fail as f:
            return f"{f.klass}: {f.detail}"
        except Exception as ex:  # noqa: BLE001
            return f"exception {type(ex).__name__}: {ex}"
        finally:
            Engine.cur = prev
    return _run(res, job, eng, fn, desc, concrete, twin)


def run_job(job):
    return {"build": job_build, "replace": job_replace, "repr": job_repr, "query": job_query, "subclass": job_subclass}[job["kind"]](job)


def replay(rec) -> int:
    print("replay C18: witness", rec["witness"], "- re-run `./check C18 --only <job>` (the concrete run is part of every violation's detail):", rec["detail"][-300:])
    return 1
