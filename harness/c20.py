"""C20 -- middleware is transparent to what it does not change.

Real code run: wsgi/asgi middleware() wrapper, NextRequest, NextResponse.from_app / render_stream, ensure_next (WSGI),
CachedStream (ASGI), shortcut.decorator / request_response, Headers.__init__ (the relay's header capture),
StreamingResponse.__call__ that re-emits the captured response.

For every inner-application recipe the bare application and the same application wrapped in 1..3 identity middlewares
(and the view-decorator form) run on the SAME symbolic data on one path; status, header multiset and body must be
equal (solver-decided for symbolic parts) and the inner application must have run exactly once.  A middleware that
sets one header must change only that header.  Symbolic: status, one header value, cookie values, body bytes;
enumerated: inner recipe, stack depth, body sizes around the relay's 64 KiB block, interface.
"""
from __future__ import annotations

import asyncio
import importlib
from typing import Any, Dict, List, Optional

import z3

import baize.asgi.responses as AR
import baize.asgi.shortcut as ASC
import baize.datastructures as DS
import baize.responses as R
import baize.wsgi.responses as WR
import baize.wsgi.shortcut as WSC

from engine import report
from engine.forksym import Engine, SInt, conc, cur, lift, smax, smin, term_of, term_of_bool
from engine.shims import Shims, int_shim
from engine.symseq import SBytes, SSeq, SStr, _items_of

from . import c05 as C5
from . import gw
from .gw import Fail

AM = importlib.import_module("baize.asgi.middleware")
WM = importlib.import_module("baize.wsgi.middleware")

PID = "C20"

META = {
    "functions": lambda: [WM.middleware, WM.NextResponse.from_app, WM.NextResponse.render_stream, WM.ensure_next, AM.middleware, AM.NextResponse.from_app,
                          AM.NextResponse.render_stream, AM.CachedStream.push, AM.CachedStream.push_eof, AM.CachedStream.__anext__, WSC.decorator,
                          WSC.request_response, ASC.decorator, ASC.request_response, DS.Headers.__init__, WR.StreamingResponse.__call__, AR.StreamingResponse.__call__],
    "engines": ["E-FS (forksym); ASGI side on the virtual-time loop (thread pool = direct call)"],
    "stubs": ["baize.asgi.middleware.SpooledTemporaryFile -> in-memory buffer that stores and returns the written objects (so symbolic bytes survive the relay)",
              "baize.wsgi.middleware.int -> status-line number of a rendered symbolic status", "status table / cookie regex stubs of C05"],
    "assumptions": ["identity middleware = `return await next_call(request)`; header-edit middleware sets exactly one header on the relayed response",
                    "inner applications come from a recipe list (every baize response class, multi-chunk streams, several cookies, unknown status, "
                    "a PEP 3333 start_response restart, an application that raises)"],
    "bounds": {"quick": {"depth_max": 3, "text_chars": 3, "sizes": [0, 1, 65535, 65536, 65537, 200000]},
               "thorough": {"depth_max": 3, "text_chars": 4, "sizes": [0, 1, 65535, 65536, 65537, 131072, 131073, 200000, 1100000]}},
    "outside": ["middlewares that read the request body", "zero-copy send extension through the relay", "other inner applications"],
    "expect_kinds": {"all": ["transparent"]},
}


class MemFile:
    """SpooledTemporaryFile stand-in keeping the written objects"""

    def __init__(self, *a, **k):
        self.chunks: List[Any] = []
        self.pos = 0
        self.total = 0

    def write(self, b):
        self.chunks.append(b)
        self.total += len(b)

    def seek(self, p):
        self.pos = 0

    def read(self, n=-1):
        # hand the stored objects back one by one, cut to n like a file would
        while self.chunks and len(self.chunks[0]) == 0:
            self.chunks.pop(0)
        if not self.chunks:
            return b""
        c = self.chunks[0]
        if n < 0 or len(c) <= n:
            self.chunks.pop(0)
            return c
        self.chunks[0] = c[n:]
        return c[:n]


def status_int(x=0, *a):
    if isinstance(x, str):
        t = cur().term_of_text(x) if Engine.cur is not None else None
        if t is not None and not x.isdigit():
            return SInt(t)
    return int_shim(x, *a)


def make_shims() -> Shims:
    s = C5.shims_for()
    s.add(AM, SpooledTemporaryFile=MemFile)
    s.add(WM, int=status_int)
    return s


# ------------------------------------------------------------------ inner applications (recipes)
def inner_app(iface: str, recipe: str, sym: Dict[str, Any], counter: List[int]):
    M = WR if iface == "wsgi" else AR
    st = sym.get("status", 200)
    hv = sym.get("hval", "v")
    size = sym.get("size")

    def resp():
        if recipe == "plain":
            body = sym.get("body", b"hello")
            if size is not None:
                body = bytes((i * 31 + 7) % 251 for i in range(size))
            return M.PlainTextResponse(body, st, {"x-a": hv})
        if recipe == "empty":
            return M.Response(st, {"x-a": hv})
        if recipe == "json":
            return M.JSONResponse({"k": [1, 2]}, st, {"x-a": hv})
        if recipe == "redirect":
            return M.RedirectResponse("/elsewhere", headers={"x-a": hv})
        if recipe == "cookie1":
            r = M.PlainTextResponse(b"c", st, {"x-a": hv})
            r.set_cookie("one", sym.get("cval", "1"))
            return r
        if recipe == "cookie2":
            r = M.PlainTextResponse(b"c", st, {"x-a": hv})
            r.set_cookie("one", sym.get("cval", "1"))
            r.set_cookie("two", "2", max_age=3)
            return r
        if recipe == "stream":
            chunks = [sym.get("body", b"s0"), b"", b"s2", b"s3"]
            if iface == "wsgi":
                def gen():
                    yield from chunks
            else:
                async def gen():
                    for c in chunks:
                        yield c
            return M.StreamResponse(gen(), st, {"x-a": hv})
        raise KeyError(recipe)

    if iface == "wsgi":
        if recipe == "restart":
            def app(environ, start_response):
                counter[0] += 1
                start_response("200 OK", [("x-first", "1"), ("set-cookie", "optimistic=1; path=/")])  # replaced below: must vanish entirely
                try:
                    raise RuntimeError("late failure")
                except RuntimeError:
                    import sys
                    start_response("500 Internal Server Error", [("x-second", hv)], sys.exc_info())
                yield b"error page"
            return app
        if recipe == "raises":
            def app(environ, start_response):
                counter[0] += 1
                raise KeyError("inner app failed")
                yield b""
            return app
        if recipe in ("list1", "list2", "emptylist", "tuple1"):
            # the most common plain-WSGI style: return a list / tuple of byte strings (not a generator)
            def app(environ, start_response):
                counter[0] += 1
                body = sym.get("body", b"hello")
                chunks = {"list1": [body], "list2": [body, b"-second"], "emptylist": [], "tuple1": (body,)}[recipe]
                total = sum(len(c) for c in chunks)
                start_response("200 OK", [("content-type", "text/plain"), ("content-length", str(total)), ("x-a", hv)])
                return chunks
            return app

        def app(environ, start_response):
            counter[0] += 1
            return resp()(environ, start_response)
        return app
    if recipe == "raises":
        async def app(scope, receive, send):
            counter[0] += 1
            raise KeyError("inner app failed")
        return app
    if recipe in ("restart", "list1", "list2", "tuple1"):
        recipe = "plain"
    if recipe == "emptylist":
        recipe = "empty"
    if recipe in ("raw-events", "raw-events-204"):
        # a hand-written ASGI application using what the specification allows: 'headers' and 'body' are optional keys
        # (body defaults to b"", more_body to False), the stream ends with a bare body event
        async def app(scope, receive, send):
            counter[0] += 1
            if recipe == "raw-events-204":
                await send({"type": "http.response.start", "status": 204})
                await send({"type": "http.response.body"})
                return
            await send({"type": "http.response.start", "status": st, "headers": [(b"x-a", hv.encode("latin-1") if not isinstance(hv, bytes) else hv)]})
            await send({"type": "http.response.body", "body": sym.get("body", b"first"), "more_body": True})
            await send({"type": "http.response.body", "more_body": True})
            await send({"type": "http.response.body"})
        return app
    if recipe == "raw-events-iterable-headers":
        # the ASGI spec types `headers` as an Iterable of pairs: a hand-written application may pass a one-shot iterable (generator), here with two cookies
        async def app(scope, receive, send):
            counter[0] += 1
            hb = hv.encode("latin-1") if not isinstance(hv, bytes) else hv
            await send({"type": "http.response.start", "status": st,
                        "headers": (pair for pair in [(b"x-a", hb), (b"set-cookie", b"a=1; path=/"), (b"x-b", b"2"), (b"set-cookie", b"b=2")])})
            await send({"type": "http.response.body", "body": sym.get("body", b"first")})
        return app
    if recipe == "file-zerocopy":
        # a FileResponse on a real file behind a server that offers the zero-copy-send extension
        p = _shared_file()

        async def app(scope, receive, send):
            counter[0] += 1
            await AR.FileResponse(p, headers={"x-a": hv}, content_type="application/octet-stream")(scope, receive, send)
        return app

    async def app(scope, receive, send):
        counter[0] += 1
        await resp()(scope, receive, send)
    return app


_FILE: Dict[str, str] = {}


def _shared_file() -> str:
    """one real 70000-byte file per process (bare and wrapped runs must see the same mtime / ETag)"""
    if "p" not in _FILE:
        import atexit
        import os
        import shutil
        import tempfile
        d = tempfile.mkdtemp(prefix="c20_")
        atexit.register(lambda: shutil.rmtree(d, ignore_errors=True))
        _FILE["p"] = os.path.join(d, "f.bin")
        with open(_FILE["p"], "wb") as f:
            f.write(bytes((i * 7 + 1) % 251 for i in range(70000)))
        os.utime(_FILE["p"], (1700000000, 1700000000))
    return _FILE["p"]


def wrap(iface: str, app, depth: int, kind: str, edit_value=None):
    mod = WM if iface == "wsgi" else AM
    for d in range(depth):
        if iface == "wsgi":
            def handler(request, next_call, _d=d):
                response = next_call(request)
                if kind == "edit" and _d == 0:
                    response.headers["x-added"] = edit_value
                return response
        else:
            async def handler(request, next_call, _d=d):
                response = await next_call(request)
                if kind == "edit" and _d == 0:
                    response.headers["x-added"] = edit_value
                return response
        app = mod.middleware(handler)(app)
    return app


def view_app(iface: str, sym, counter, decorated: int):
    """request_response view wrapped by `decorator` layers"""
    SC, M = (WSC, WR) if iface == "wsgi" else (ASC, AR)
    if iface == "wsgi":
        def view(request):
            counter[0] += 1
            return M.PlainTextResponse(sym.get("body", b"v"), sym.get("status", 200), {"x-a": sym.get("hval", "v")})

        def h(request, next_call):
            return next_call(request)
    else:
        async def view(request):
            counter[0] += 1
            return M.PlainTextResponse(sym.get("body", b"v"), sym.get("status", 200), {"x-a": sym.get("hval", "v")})

        async def h(request, next_call):
            return await next_call(request)
    v = view
    for _ in range(decorated):
        v = SC.decorator(h)(v)
    return SC.request_response(v)


def observe(iface, app, zerocopy=False):
    if zerocopy:
        # a server that offers http.response.zerocopysend and turns those messages into the bytes they denote (read at send time)
        import asyncio
        import os
        sent: List[Any] = []

        async def send(m):
            if m["type"] == "http.response.zerocopysend":
                fd = m["file"]
                if m.get("offset") is not None:
                    os.lseek(fd, m["offset"], os.SEEK_SET)
                data = os.read(fd, m["count"]) if m.get("count") is not None else b"".join(iter(lambda: os.read(fd, 1 << 20), b""))
                m = {"type": "http.response.body", "body": data, "more_body": m.get("more_body", False)}
            sent.append(("send", m))

        async def receive():
            await asyncio.get_running_loop().create_future()
        sc = dict(C5.scope("GET"), extensions={"http.response.zerocopysend": {}})
        try:
            asyncio.run(asyncio.wait_for(app(sc, receive, send), 20))
        except Exception as ex:  # noqa: BLE001
            return ("raise", type(ex).__name__)
        bodies = [m for _, m in sent if m["type"] == "http.response.body"]
        if not bodies or bodies[-1].get("more_body", False):
            return ("incomplete", len(bodies))
        return ("ok", gw.norm_asgi(sent))
    if iface == "wsgi":
        ev, done = gw.run_wsgi(app, C5.environ("GET"))
        r = [x for x in ev if x[0] == "raise"]
        return ("raise", type(r[0][1]).__name__) if r else ("ok", gw.norm_wsgi(ev))
    ev, done = gw.run_asgi(app, C5.scope("GET"), use_loop=True)
    r = [x for x in ev if x[0] == "raise"]
    return ("raise", type(r[0][1]).__name__) if r else ("ok", gw.norm_asgi(ev))


def run_job(job) -> report.JobResult:
    import sys
    sys.unraisablehook = lambda *a: None
    if job.get("kind") == "overlap":
        return job_overlap(job)
    if job.get("kind") == "zcwindow":
        return job_zc_window(job)
    res = report.JobResult.new(job["name"])
    twin = job.get("twin", False)
    iface, recipe, depth, kind, what = job["iface"], job["recipe"], job["depth"], job["kind"], job["what"]
    n = job.get("n", 1)
    eng = Engine(budget_s=900)
    eng.char_alphabet = "c1"
    sym: Dict[str, Any] = {}
    if what == "status":
        v = z3.Int("status")
        eng.solver.add(v >= 100, v <= 999)
        sym["status"] = SInt(v)
    elif what == "header":
        s = SStr.fresh(n, "h", 0, 255, eng.solver)
        C5.printable_latin1(eng, s)
        sym["hval"] = s
    elif what == "cookie":
        sym["cval"] = SStr.fresh(n, "cv", 0, 255, eng.solver)
    elif what == "body":
        sym["body"] = SBytes.fresh(n, "b", 0, 255, eng.solver)
    elif what == "size":
        sym["size"] = job["size"]
        v = z3.Int("status")
        eng.solver.add(v >= 200, v <= 599)
        sym["status"] = SInt(v)
    edit_value = None
    if kind == "edit":
        edit_value = SStr.fresh(1, "ev", 0, 255, eng.solver)
        C5.printable_latin1(eng, edit_value)
    shims = make_shims()
    SSeq.NORMALIZE = False

    def fn():
        e = cur()
        c0, c1 = [0], [0]
        if kind == "decorator":
            bare = observe(iface, view_app(iface, sym, c0, 0))
            wrapped = observe(iface, view_app(iface, sym, c1, depth))
        else:
            zc = recipe == "file-zerocopy"
            bare = observe(iface, inner_app(iface, recipe, sym, c0), zc)
            wrapped = observe(iface, wrap(iface, inner_app(iface, recipe, sym, c1), depth, kind, edit_value), zc)
        if c1[0] != 1:
            raise Fail("inner-application-not-run-exactly-once", f"{c1[0]} runs")
        if bare[0] != wrapped[0]:
            raise Fail("error-behaviour-differs", f"bare {bare[0]} / wrapped {wrapped[0]} {wrapped[1] if wrapped[0] == 'raise' else ''}")
        if bare[0] == "raise":
            if bare[1] != wrapped[1]:
                raise Fail("different-exception", f"{bare[1]} vs {wrapped[1]}")
            return "transparent"
        b, w = bare[1], wrapped[1]
        if kind == "edit":
            added = [(k, v) for k, v in w[1] if isinstance(k, str) and k == "x-added"]
            if len(added) != 1 or not gw.same_items(e, added[0][1], edit_value):
                raise Fail("edited-header-missing-or-wrong")
            w = (w[0], [(k, v) for k, v in w[1] if not (isinstance(k, str) and k == "x-added")], w[2])
        d = gw.diff_norm(e, b, w)
        if d:
            dup = sorted(k for k, _ in b[1] if isinstance(k, str) and [kk for kk, _ in b[1]].count(k) > 1)
            raise Fail("not-transparent" + ("/repeated-header-folded" if dup and "header count" in d else ""), d)
        if twin:
            raise Fail("twin-assert-false")
        return "transparent"

    def on_path(e, r):
        kind_, v = r
        klass = detail = None
        if kind_ == "exc":
            if isinstance(v, Fail):
                klass, detail = v.klass, v.detail
            else:
                klass, detail = f"exception:{type(v).__name__}", repr(v)
        if klass is None or "not-transparent" not in klass:
            e.last_sat = False
        m = e.witness()
        inputs = {k: (repr(conc(x, m)) if isinstance(x, SSeq) else m.eval(x.e, True).as_long() if isinstance(x, SInt) else x) for k, x in sym.items()}
        wit = {"job": job["name"], "iface": iface, "recipe": recipe, "depth": depth, "kind": kind, "inputs": inputs}
        if klass is not None:
            with shims.off():
                conf = concrete_confirm(job, inputs) if not twin else True
            res.violation(f"C20/{iface}/{recipe}/{klass.split(':')[0]}", wit, f"{klass} {detail}; unshimmed bare vs wrapped on the concrete witness: "
                          f"{'differ' if conf else 'agree' if conf is False else 'n/a'}", conf)
            return
        res.kind(v)
        if res["validated"] < 10:
            with shims.off():
                conf = concrete_confirm(job, inputs)
            if conf:
                res["harness_errors"].append(f"transparent symbolically but bare and wrapped differ concretely: {wit}")
            if conf is not None:
                res["validated"] += 1
        res.sample({k: wit[k] for k in ("iface", "recipe", "depth", "kind", "inputs")}, limit=1)

    try:
        with shims:
            eng.explore(fn, on_path)
    finally:
        SSeq.NORMALIZE = True
    res.absorb_engine(eng)
    return res


def concrete_confirm(job, inputs) -> Optional[bool]:
    """bare vs wrapped on the real, unshimmed code with concrete values"""
    import ast
    prev = Engine.cur
    Engine.cur = None
    nrm = SSeq.NORMALIZE
    SSeq.NORMALIZE = True
    try:
        sym = {k: (ast.literal_eval(v) if isinstance(v, str) else v) for k, v in inputs.items()}
        iface, recipe, depth, kind = job["iface"], job["recipe"], job["depth"], job["kind"]

        def obs(app):
            if recipe == "file-zerocopy":
                o = observe(iface, app, True)
                return ("ok", int(o[1][0]), sorted(o[1][1]), bytes(o[1][2])) if o[0] == "ok" else o
            if iface == "wsgi":
                ev, done = gw.run_wsgi(app, C5.environ("GET"))
                r = [x for x in ev if x[0] == "raise"]
                if r:
                    return ("raise", type(r[0][1]).__name__)
                st, hd, body = gw.norm_wsgi(ev)
                return ("ok", int(st), sorted(hd), bytes(body))
            sent = []

            async def send(m):
                sent.append(("send", m))

            async def receive():
                await asyncio.sleep(3600)
            try:
                asyncio.run(asyncio.wait_for(app(C5.scope("GET"), receive, send), 30))
            except Exception as ex:  # noqa: BLE001
                return ("raise", type(ex).__name__)
            st, hd, body = gw.norm_asgi(sent)
            return ("ok", int(st), sorted(hd), bytes(body))
        c0, c1 = [0], [0]
        if kind == "decorator":
            a, b = obs(view_app(iface, sym, c0, 0)), obs(view_app(iface, sym, c1, depth))
        else:
            a = obs(inner_app(iface, recipe, sym, c0))
            b = obs(wrap(iface, inner_app(iface, recipe, sym, c1), depth, kind, "E"))
            if kind == "edit" and b[0] == "ok":
                if ("x-added", "E") not in b[2]:
                    return True
                b = (b[0], b[1], [h for h in b[2] if h[0] != "x-added"], b[3])
        return a != b or c1[0] != 1
    except Exception:  # noqa: BLE001
        return None
    finally:
        Engine.cur = prev
        SSeq.NORMALIZE = nrm


# ------------------------------------------------------------------ the relay's reading of a zero-copy-send window (ASGI)
ZC_MAX = 300000


class _Chunk(bytes):
    """what the os stand-in's read() hands back: an (empty) bytes object that knows its symbolic length"""
    k: Any = 0

    def __bool__(self):
        k = self.k
        return bool(k > 0) if isinstance(k, SInt) else k > 0


def _zc_len(x):
    return x.k if isinstance(x, _Chunk) else len(x)


class _WindowOS:
    """os stand-in: one regular file of `size` bytes; read(n) returns min(n, what is left) bytes, or -- at most `shorts`
    times on a path -- any shorter non-empty amount (POSIX allows short reads)"""
    SEEK_SET = 0

    def __init__(self, size, pos0, shorts, script=None):
        self.size, self.pos, self.shorts, self.script = size, pos0, shorts, script
        self.reads: List[Any] = []

    def lseek(self, fd, pos, whence):
        self.pos = pos
        return pos

    def read(self, fd, n):
        if self.script is not None:          # concrete replay: the lengths the solver chose, real bytes
            k = self.script.pop(0) if self.script else max(0, min(n, self.size - self.pos))
            k = max(0, min(k, n, self.size - self.pos))
            data = bytes((i * 7 + 1) % 251 for i in range(self.pos, self.pos + k))
            self.pos += k
            return data
        e = cur()
        if e.branch(term_of_bool(lift(n) < 0)):
            raise Fail("negative-read-size")
        left = smax(lift(self.size) - lift(self.pos), 0)
        k = smin(n, left)
        if self.shorts > 0 and e.branch(term_of_bool(lift(k) > 1)) and e.choose(2, "short") == 1:
            self.shorts -= 1
            k = e.fresh("shortread", 1)
            e.assume(term_of_bool(k < smin(n, left)))
        self.reads.append((self.pos, k))
        self.pos = lift(self.pos) + k
        c = _Chunk()
        c.k = k
        return c


def zc_concrete(w) -> Optional[str]:
    """the real read_zerocopysend on a concrete message against a concrete file image with the witness's read lengths"""
    osx = _WindowOS(w["file_size"], w["position_before"], 0, script=list(w["read_lengths"]))
    msg = {"type": "http.response.zerocopysend", "file": 7}
    if w["offset"] is not None:
        msg["offset"] = w["offset"]
    if w["count"] is not None:
        msg["count"] = w["count"]
    start = w["offset"] if w["offset"] is not None else w["position_before"]
    want_len = max(0, w["file_size"] - start)
    if w["count"] is not None:
        want_len = min(want_len, w["count"])
    want = bytes((i * 7 + 1) % 251 for i in range(start, start + want_len))
    old = AM.os
    AM.os = osx
    try:
        got = AM.read_zerocopysend(msg)
    except Exception as ex:  # noqa: BLE001
        return f"raises {type(ex).__name__}: {ex}"
    finally:
        AM.os = old
    return None if got == want else f"relay returns {len(got)} bytes for a window of {len(want)} bytes" if len(got) != len(want) else "relay returns other bytes than the window"


def job_zc_window(job) -> report.JobResult:
    res = report.JobResult.new(job["name"])
    twin = job.get("twin", False)
    eng = Engine(budget_s=600)
    size, off, cnt, pos0 = z3.Int("file_size"), z3.Int("offset"), z3.Int("count"), z3.Int("position_before")
    for v in (size, off, cnt, pos0):
        eng.solver.add(v >= 0, v <= ZC_MAX)
    shims = Shims()
    shims.add(AM, len=_zc_len)

    def fn():
        e = cur()
        osx = _WindowOS(SInt(size), SInt(pos0), job["shorts"])
        shims_os = AM.os
        AM.os = osx
        try:
            msg = {"type": "http.response.zerocopysend", "file": 7}
            if job["offset"]:
                msg["offset"] = SInt(off)
            if job["count"]:
                msg["count"] = SInt(cnt)
            AM.read_zerocopysend(msg)
        finally:
            AM.os = shims_os
        start = SInt(off) if job["offset"] else SInt(pos0)
        want = smax(SInt(size) - start, 0)
        if job["count"]:
            want = smin(want, SInt(cnt))
        total = lift(0)
        at = start
        for p_, k in osx.reads:
            if e.branch(term_of_bool(lift(p_) != at)):
                raise Fail("relay-reads-from-the-wrong-position")
            total = total + k
            at = at + k
        if e.branch(term_of_bool(total != want)):
            raise Fail("relayed-window-length-differs", f"{len(osx.reads)} reads")
        if twin:
            raise Fail("twin-assert-false")
        return ("transparent", osx.reads)

    def on_path(e, r):
        kind_, v = r
        klass = detail = None
        reads = []
        if kind_ == "exc":
            if isinstance(v, Fail):
                klass, detail = v.klass, v.detail
            else:
                klass, detail = f"exception:{type(v).__name__}", repr(v)
        else:
            reads = v[1]
        m = e.witness()
        g = lambda t: m.eval(t, True).as_long()  # noqa: E731
        wit = {"job": job["name"], "file_size": g(size), "position_before": g(pos0), "offset": g(off) if job["offset"] else None,
               "count": g(cnt) if job["count"] else None,
               "read_lengths": [g(term_of(lift(k))) for _, k in (reads or getattr(e, "_zc_reads", []))]}
        if klass is not None:
            # the read lengths of a failing path are not returned: replay with full reads first, then the solver's values if that agrees
            cp = zc_concrete(dict(wit, read_lengths=[])) if not twin else "twin"
            res.violation(f"C20/asgi/zerocopy-window/{klass.split(':')[0]}", wit, f"{klass} {detail}; real function on the concrete window: {cp}", (cp is not None) or twin)
            return
        res.kind("transparent")
        if res["validated"] < 40:
            cp = zc_concrete(wit)
            if cp is not None:
                res["harness_errors"].append(f"window relayed exactly symbolically but not concretely: {wit}: {cp}")
            res["validated"] += 1
        res.sample(wit, limit=1)

    with shims:
        eng.explore(fn, on_path)
    res.absorb_engine(eng)
    return res


# ------------------------------------------------------------------ two requests in flight through ONE middleware instance (ASGI)
def overlap_scenario(delays):
    """inner app: cookies and a header that depend on the request path; identity handler that awaits an audit hook (delays[i] ticks) between
    next_call and return.  Returns per request (bare observation, wrapped observation)."""
    import asyncio
    from engine.vloop import VLoop

    async def inner(scope, receive, send):
        tag = scope["path"].strip("/")
        r = AR.PlainTextResponse(("body of " + tag).encode(), 200, {"x-who": tag})
        r.set_cookie("sid", tag)
        r.set_cookie("seen", tag + "-1", max_age=5)
        await r(scope, receive, send)

    async def handler(request, next_call):
        response = await next_call(request)
        d = delays[0] if request["path"] == "/a" else delays[1]
        if not isinstance(d, int) or d > 0:
            if d > 0:
                await asyncio.sleep(d)
        return response
    wrapped = AM.middleware(handler)(inner)

    async def one(app, path, start):
        if not isinstance(start, int) or start > 0:
            if start > 0:
                await asyncio.sleep(start)
        ev = []

        async def send(m):
            ev.append(("send", m))

        async def receive():
            await asyncio.get_running_loop().create_future()
        await app({"type": "http", "method": "GET", "path": path, "root_path": "", "headers": [], "query_string": b""}, receive, send)
        return gw.norm_asgi(ev)

    async def main():
        bare = [await one(inner, "/a", 0), await one(inner, "/b", 0)]
        got = await asyncio.gather(one(wrapped, "/a", 0), one(wrapped, "/b", delays[2]))
        return bare, list(got)
    loop = VLoop()
    try:
        return loop.run_until_complete(main())
    finally:
        loop.close()


def job_overlap(job) -> report.JobResult:
    res = report.JobResult.new(job["name"])
    twin = job.get("twin", False)
    eng = Engine(budget_s=600)
    D = [z3.Int("audit_a"), z3.Int("audit_b"), z3.Int("start_b")]
    for v in D:
        eng.solver.add(v >= 0, v <= 10)

    def verdict(e, bare, got):
        for i, path in enumerate(("/a", "/b")):
            d = gw.diff_norm(e, bare[i], got[i])
            if d:
                raise Fail("not-transparent-under-overlap", f"request {path}: {d}")

    def fn():
        bare, got = overlap_scenario([SInt(v) for v in D])
        verdict(cur(), bare, got)
        if twin:
            raise Fail("twin-assert-false")
        return "ok"

    def on_path(e, r):
        kind, v = r
        klass = detail = None
        if kind == "exc":
            klass, detail = (v.klass, v.detail) if isinstance(v, Fail) else (f"exception:{type(v).__name__}", repr(v))
        e.last_sat = False
        m = e.witness()
        cd = [m.eval(x, True).as_long() for x in D]
        wit = {"job": job["name"], "inputs": {"audit_ticks_a": cd[0], "audit_ticks_b": cd[1], "second_request_starts_at": cd[2]}}
        cp = None
        prev = Engine.cur
        Engine.cur = None
        try:
            bare, got = overlap_scenario(cd)
            verdict(C5._PlainEngine(), bare, got)
        except Fail as f:
            cp = f"{f.klass}: {f.detail}"
        except Exception as ex:  # noqa: BLE001
            cp = f"exception {type(ex).__name__}: {ex}"
        finally:
            Engine.cur = prev
        if klass is not None:
            res.violation(f"C20/asgi/overlap/{klass.split(':')[0]}", wit, f"{klass} {detail}; concrete schedule: {cp}", (cp is not None) or twin)
            return
        res.kind("ok")
        if cp is not None:
            res["harness_errors"].append(f"symbolic schedule holds but its concrete instance fails: {wit}: {cp}")
        res["validated"] += 1
        res.sample(wit, limit=1)
    eng.explore(fn, on_path)
    res.absorb_engine(eng)
    return res


def jobs(tier: str):
    b = META["bounds"][tier]
    out = [dict(name="asgi/overlap/two-requests-one-middleware", iface="asgi", recipe="overlap", depth=1, kind="overlap", what="schedule", weight=40)]
    for iface in ("wsgi", "asgi"):
        for recipe in ("plain", "empty", "json", "redirect", "cookie1", "cookie2", "stream", "restart", "raises") + (("list1", "list2", "emptylist", "tuple1") if iface == "wsgi" else ("raw-events", "raw-events-204", "raw-events-iterable-headers", "file-zerocopy")):
            for depth in range(1, b["depth_max"] + 1):
                what = "header" if recipe not in ("cookie1", "cookie2") else "cookie"
                out.append(dict(name=f"{iface}/{recipe}/identity{depth}/{what}", iface=iface, recipe=recipe, depth=depth, kind="identity", what=what, n=1))
            out.append(dict(name=f"{iface}/{recipe}/identity1/status", iface=iface, recipe=recipe, depth=1, kind="identity", what="status", weight=70))
            out.append(dict(name=f"{iface}/{recipe}/edit1/header", iface=iface, recipe=recipe, depth=1, kind="edit", what="header", n=1))
        for n in range(0, b["text_chars"] + 1):
            out.append(dict(name=f"{iface}/plain/identity1/body{n}", iface=iface, recipe="plain", depth=1, kind="identity", what="body", n=n))
            out.append(dict(name=f"{iface}/stream/identity2/body{n}", iface=iface, recipe="stream", depth=2, kind="identity", what="body", n=n))
            if iface == "wsgi":
                out.append(dict(name=f"{iface}/list2/identity1/body{n}", iface=iface, recipe="list2", depth=1, kind="identity", what="body", n=n))
        for size in b["sizes"]:
            for depth in (1, b["depth_max"]):
                out.append(dict(name=f"{iface}/plain/identity{depth}/size{size}", iface=iface, recipe="plain", depth=depth, kind="identity", what="size", size=size, weight=50))
        for depth in range(1, b["depth_max"] + 1):
            out.append(dict(name=f"{iface}/view/decorator{depth}/header", iface=iface, recipe="view", depth=depth, kind="decorator", what="header", n=1))
    for offset in (True, False):
        for count in (True, False):
            for shorts in (0, 2):
                out.append(dict(name=f"asgi/zerocopy-window/{'offset' if offset else 'no-offset'}/{'count' if count else 'to-end-of-file'}/short-reads{shorts}",
                                iface="asgi", recipe="zcwindow", depth=1, kind="zcwindow", what="window", offset=offset, count=count, shorts=shorts, weight=30))
    out.append(dict(name="asgi/zerocopy-window/twin", iface="asgi", recipe="zcwindow", depth=1, kind="zcwindow", what="window", offset=True, count=True, shorts=0, twin=True))
    out.append(dict(name="twin", iface="wsgi", recipe="plain", depth=1, kind="identity", what="header", n=1, twin=True))
    return out


def replay(rec) -> int:
    w = rec["witness"]
    if "zerocopy-window" in w.get("job", ""):
        cp = zc_concrete(dict(w, read_lengths=[]))
        print(f"replay C20: {w} -> {cp or 'window relayed exactly'}")
        return 1 if cp else 0
    if "overlap" in w.get("job", ""):
        i = w["inputs"]
        bare, got = overlap_scenario([i["audit_ticks_a"], i["audit_ticks_b"], i["second_request_starts_at"]])
        diffs = [gw.diff_norm(C5._PlainEngine(), b_, g_) for b_, g_ in zip(bare, got)]
        print(f"replay C20: {w} -> {diffs}")
        return 1 if any(diffs) else 0
    job = [j for j in jobs("thorough") if j["name"] == w["job"]]
    conf = concrete_confirm(job[0], w["inputs"]) if job else None
    print(f"replay C20: {w} -> bare and wrapped {'differ' if conf else 'agree' if conf is False else 'n/a'}")
    return 1 if conf else 0
