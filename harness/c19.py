"""C19 -- server-sent events reach the client as they were yielded.

Real code run: baize.responses.build_bytes_from_sse (the encoder both SendEventResponse classes
use), plus the literal ping comment of both render_stream implementations.

Symbolic: every character of `data`, `event` and `id` (full Unicode without surrogates for
utf-8, Latin-1 for latin-1), the `retry` integer.  Enumerated: string lengths, field subsets,
charset, event sequences with pings.  The bytes the real encoder returns are decoded and fed to
a WHATWG event-stream parser written in the harness that runs *symbolically* (forks on CR / LF /
':' / ' '), and the dispatched event is compared with the expectation by solver queries.

Symbolic characters cross the encoder's f-strings as one-char placeholders that the encoder never
inspects (it only concatenates and encodes them); the split into lines happens before, on proxies.
"""
from __future__ import annotations

import asyncio
import itertools
from typing import Any, Dict, List, Optional, Tuple

import z3

import baize.asgi.responses as AR
import baize.responses as R
import baize.wsgi.responses as WR

from engine import report
from engine.forksym import Engine, Pruned, SInt, conc, cur, term_of
from engine.reshim import ReShim
from engine.shims import Shims
from engine.symseq import SStr, in_set, item_eq

PID = "C19"

META = {
    "functions": lambda: [R.build_bytes_from_sse, WR.SendEventResponse.render_stream, AR.SendEventResponse.render_stream],
    "engines": ["E-FS (forksym): symbolic Unicode strings through the real encoder; symbolic WHATWG parser as oracle"],
    "stubs": ["baize.responses.re -> ReShim (used if the encoder splits lines with a regex); symbolic characters are rendered as private placeholder code points when they cross an f-string "
              "(sound because the encoder only concatenates/encodes them after the line split)"],
    "assumptions": ["event name and id are single-line (no CR/LF) as the property states; id has no NUL (the wire format cannot carry it)",
                    "all text is encodable in the response charset (utf-8: no lone surrogates; latin-1: code points <= 255)",
                    "retry is a non-negative integer"],
    "bounds": {"quick": {"data_len_max": 3, "name_len_max": 2, "id_len_max": 2, "charsets": ["utf-8", "latin-1"]},
               "thorough": {"data_len_max": 5, "name_len_max": 3, "id_len_max": 3, "charsets": ["utf-8", "latin-1"]}},
    "outside": ["longer strings", "other charsets (multi-byte non-UTF-8 encodings)", "real network transport / chunking of the byte stream"],
    "expect_kinds": {"all": ["one-event", "no-event"]},
}

PING = b": ping\n\n"


class Fail(Exception):
    def __init__(self, klass, detail=""):
        self.klass, self.detail = klass, detail


class Tok:
    """a rendered integer (digit run) inside the decoded stream"""

    def __init__(self, term):
        self.term = term


def to_items(text: str) -> List[Any]:
    """decoded wire text -> items: int code points, SInt (placeholders), Tok (rendered integers)"""
    e = cur()
    out: List[Any] = []
    i = 0
    while i < len(text):
        c = text[i]
        if c in e.chars:
            out.append(SInt(e.chars[c]))
            i += 1
        elif e.is_token_char(c):
            j = i
            while j < len(text) and text[j] == c:
                j += 1
            if text[i:j] not in e.tokens:
                raise Fail("token-damaged", "rendered integer not intact on the wire")
            out.append(Tok(e.tokens[text[i:j]]))
            i = j
        else:
            out.append(ord(c))
            i += 1
    return out


def is_char(it, code: int) -> bool:
    if isinstance(it, Tok):
        return False
    return bool(item_eq(it, code))


def whatwg_parse(items: List[Any]):
    """WHATWG 9.2.6 'interpret an event stream' on an item list (forks on symbolic items).
    Returns (events [(type items, data items, last_id items)], last_id items, retry term|None)."""
    lines: List[List[Any]] = []
    cur_line: List[Any] = []
    i = 0
    n = len(items)
    while i < n:
        it = items[i]
        if is_char(it, 13):
            lines.append(cur_line)
            cur_line = []
            if i + 1 < n and is_char(items[i + 1], 10):
                i += 1
        elif is_char(it, 10):
            lines.append(cur_line)
            cur_line = []
        else:
            cur_line.append(it)
        i += 1
    # an unterminated last line is discarded by the spec (incomplete event)
    events = []
    data: Optional[List[Any]] = None  # None = empty buffer; list = buffer content incl. trailing LF per line
    ev_type: List[Any] = []
    last_id: List[Any] = []
    retry = None
    for line in lines:
        if not line:
            if data is not None:
                events.append((ev_type, data[:-1], list(last_id)))
            data, ev_type = None, []
            continue
        if is_char(line[0], 58):
            continue
        idx = next((k for k, it in enumerate(line) if is_char(it, 58)), None)
        if idx is None:
            field, value = line, []
        else:
            field, value = line[:idx], line[idx + 1:]
            if value and is_char(value[0], 32):
                value = value[1:]
        name = field_name(field)
        if name == "data":
            data = (data or []) + value + [10]
        elif name == "event":
            ev_type = value
        elif name == "id":
            if not any(is_char(it, 0) for it in value):
                last_id = value
        elif name == "retry":
            if value and all(isinstance(it, Tok) or (not isinstance(it, SInt) and 48 <= it <= 57) for it in value) and \
                    not any(isinstance(it, SInt) for it in value):
                retry = value
    return events, last_id, retry


def field_name(field: List[Any]) -> Optional[str]:
    for cand in ("data", "event", "id", "retry"):
        if len(field) == len(cand) and all(is_char(it, ord(ch)) for it, ch in zip(field, cand)):
            return cand
    return None


def expected_data(items: List[Any]) -> List[Any]:
    """the original's lines as delimited by CR, LF or CRLF only, joined by LF"""
    out: List[Any] = []
    i = 0
    n = len(items)
    while i < n:
        it = items[i]
        if is_char(it, 13):
            out.append(10)
            if i + 1 < n and is_char(items[i + 1], 10):
                i += 1
        elif is_char(it, 10):
            out.append(10)
        else:
            out.append(it)
        i += 1
    return out


def items_equal(e: Engine, a: List[Any], b: List[Any]) -> bool:
    if len(a) != len(b):
        return False
    diffs = []
    for x, y in zip(a, b):
        if isinstance(x, Tok) or isinstance(y, Tok):
            return False
        tx, ty = term_of(x), term_of(y)
        if not z3.eq(tx, ty):
            diffs.append(tx != ty)
    return not (diffs and e.check(z3.Or(diffs)))


def concrete_whatwg(stream: str):
    events = []
    data = None
    ev = ""
    last_id = ""
    retry = None
    import re
    lines = re.split("\r\n|\r|\n", stream)
    lines = lines[:-1]
    for line in lines:
        if line == "":
            if data is not None:
                events.append((ev, data[:-1], last_id))
            data, ev = None, ""
            continue
        if line[0] == ":":
            continue
        if ":" in line:
            f, _, v = line.partition(":")
            if v[:1] == " ":
                v = v[1:]
        else:
            f, v = line, ""
        if f == "data":
            data = (data or "") + v + "\n"
        elif f == "event":
            ev = v
        elif f == "id":
            if "\0" not in v:
                last_id = v
        elif f == "retry" and v and all(c in "0123456789" for c in v):
            retry = int(v)
    return events, last_id, retry


def concrete_problem(ev: Dict[str, Any], charset: str, with_ping: bool) -> Optional[str]:
    import re
    try:
        wire = R.build_bytes_from_sse(dict(ev), charset)
    except Exception as ex:  # noqa: BLE001
        return f"exception {type(ex).__name__}: {ex}"
    if with_ping:
        wire = PING + wire + PING
    try:
        text = wire.decode(charset)
    except UnicodeDecodeError as ex:
        return f"wire is not valid {charset}: {ex}"
    events, last_id, retry = concrete_whatwg(text)
    if "data" in ev:
        exp = "\n".join(re.split("\r\n|\r|\n", ev["data"]))
        if len(events) != 1:
            return f"{len(events)} events dispatched"
        if events[0][1] != exp:
            return f"data {events[0][1]!r} != {exp!r}"
        if events[0][0] != ev.get("event", ""):
            return f"event name {events[0][0]!r}"
    elif events:
        return "event dispatched without data"
    if "id" in ev and last_id != ev["id"]:
        return f"id {last_id!r}"
    if "retry" in ev and retry != ev["retry"]:
        return f"retry {retry!r}"
    return None


def run_job(job) -> report.JobResult:
    if job.get("kind") == "stream":
        return job_stream(job)
    res = report.JobResult.new(job["name"])
    twin = job.get("twin", False)
    charset = job["charset"]
    fields = job["fields"]
    ld, ln, li = job.get("ld", 0), job.get("ln", 0), job.get("li", 0)
    with_ping = job.get("ping", False)
    eng = Engine(budget_s=job.get("budget", 1200))
    eng.render_opaque = True  # retry is rendered as one opaque digit-run token: nobody inspects its digits, any magnitude is covered
    hi = 0x10FFFF if charset == "utf-8" else 255
    if charset != "utf-8":
        eng.char_alphabet = "c1"
        eng.token_alphabet = "ctl"

    def mk(n, name):
        s = SStr.fresh(n, name, 0, hi, eng.solver)
        if charset == "utf-8":
            for c in s.items:
                eng.solver.add(z3.Or(c.e < 0xD800, c.e > 0xDFFF))
                # placeholder planes are reserved for the engine
                eng.solver.add(c.e < 0xF0000)
        else:
            for c in s.items:
                eng.solver.add(z3.Or(c.e < 0x80, c.e > 0x9F))  # C1 controls are the engine's placeholders in this charset
        return s
    data = mk(ld, "d") if "data" in fields else None
    if data is not None and job.get("dtemplate"):  # longer data of one shape: '*' = symbolic character, the rest literal
        it = iter(data.items)
        data = SStr([next(it) if ch == "*" else ord(ch) for ch in job["dtemplate"]])
    name = mk(ln, "n") if "event" in fields else None
    ident = mk(li, "i") if "id" in fields else None
    retry_v = z3.Int("retry")
    eng.solver.add(retry_v >= 0)
    for s in (name, ident):
        if s is not None:
            for c in s.items:
                eng.solver.add(c.e != 10, c.e != 13)
    if ident is not None:
        for c in ident.items:
            eng.solver.add(c.e != 0)

    def fn():
        ev: Dict[str, Any] = {}
        for f in fields:  # insertion order as enumerated
            if f == "data":
                ev["data"] = data
            elif f == "event":
                ev["event"] = name
            elif f == "id":
                ev["id"] = ident
            elif f == "retry":
                ev["retry"] = SInt(retry_v)
        wire = R.build_bytes_from_sse(ev, charset)
        if not isinstance(wire, bytes):
            raise Fail("encoder-returned-non-bytes", type(wire).__name__)
        if with_ping:
            wire = PING + wire + PING
        try:
            text = wire.decode(charset)
        except UnicodeDecodeError as ex:
            raise Fail("wire-not-decodable", str(ex))
        items = to_items(text)
        events, last_id, retry = whatwg_parse(items)
        return events, last_id, retry

    def on_path(e, r):
        kind, v = r
        klass = detail = None
        outcome = None
        try:
            if kind == "exc":
                if isinstance(v, Fail):
                    raise v
                raise Fail(f"exception:{type(v).__name__}", repr(v))
            if twin:
                raise Fail("twin-assert-false")
            events, last_id, retry = v
            if data is not None:
                if len(events) != 1:
                    raise Fail("event-count", f"{len(events)} events dispatched for one yielded event")
                et, ed, _ = events[0]
                if not items_equal(e, ed, expected_data(data.items)):
                    raise Fail("data-altered")
                if not items_equal(e, et, name.items if name is not None else []):
                    raise Fail("event-name-altered")
                outcome = "one-event"
            else:
                if events:
                    raise Fail("event-without-data-dispatched")
                outcome = "no-event"
            if ident is not None and not items_equal(e, last_id, ident.items):
                raise Fail("id-altered")
            if "retry" in fields:
                if retry is None or len(retry) != 1 or not isinstance(retry[0], Tok):
                    if retry is None or any(isinstance(it, Tok) for it in retry):
                        raise Fail("retry-lost")
                    # concrete digits: compare by value
                    val = int("".join(chr(c) for c in retry))
                    if e.check(retry_v != val):
                        raise Fail("retry-altered")
                elif e.check(retry[0].term != retry_v):
                    raise Fail("retry-altered")
        except Fail as f:
            klass, detail = f.klass, f.detail
        if klass is None or klass not in ("data-altered", "event-name-altered", "id-altered", "retry-altered"):
            e.last_sat = False
        m = e.witness()
        cev: Dict[str, Any] = {}
        for f in fields:
            cev[f] = {"data": lambda: conc(data, m), "event": lambda: conc(name, m), "id": lambda: conc(ident, m),
                      "retry": lambda: m.eval(retry_v, True).as_long()}[f]()
        wit = {"event": cev, "charset": charset, "ping": with_ping}
        big_retry = "retry" in cev and cev["retry"] >= 10 ** 9
        with shims.off():
            cp = concrete_problem(cev, charset, with_ping)
        if klass is not None:
            res.violation(f"C19/build_bytes_from_sse/{klass.split(':')[0]}", wit, f"{klass} {detail}; concrete: {cp}", (cp is not None) or twin)
            return
        res.kind(outcome)
        if cp is not None:
            res["harness_errors"].append(f"symbolic path holds but concrete run fails: {wit!r}: {cp}")
        res["validated"] += 1
        res.sample({k: (repr(x) if isinstance(x, str) else x) for k, x in cev.items()} | {"charset": charset}, limit=1)

    shims = Shims().add(R, re=ReShim)
    with shims:
        eng.explore(fn, on_path)
    res.absorb_engine(eng)
    return res


def job_stream(job) -> report.JobResult:
    """whole SendEventResponse (both stacks): a sequence of events incl. an empty one and pings arrives in order, nothing lost"""
    import sys
    from . import gw
    sys.unraisablehook = lambda *a: None
    res = report.JobResult.new(job["name"])
    iface = job["iface"]
    eng = Engine(budget_s=600)
    eng.render_opaque = True
    d0 = SStr.fresh(1, "d0_", 0, 0x10FFFF, eng.solver)
    d1 = SStr.fresh(1, "d1_", 0, 0x10FFFF, eng.solver)
    for c in d0.items + d1.items:
        eng.solver.add(z3.Or(c.e < 0xD800, c.e > 0xDFFF), c.e < 0xF0000)
    shims = Shims().add(R, re=ReShim)
    delays = [z3.Int(f"quiet{k}") for k in range(3)]
    for dv in delays:
        eng.solver.add(dv >= 0, dv <= 100)
    seqs = {"plain": lambda: [{"data": d0, "event": "a"}, {"data": d1, "id": "7"}],
            "with-empty": lambda: [{"data": d0, "event": "a"}, {}, {"data": d1, "id": "7"}],
            "empty-first": lambda: [{}, {"data": d0, "event": "a"}, {"data": d1, "id": "7"}]}

    def fn():
        items = seqs[job["seq"]]()
        M = WR if iface == "wsgi" else AR
        if iface == "wsgi":
            def gen():
                for it in items:
                    # share_objects: the application yields its OWN event dictionaries (kept in a list / template message) instead of fresh ones
                    yield it if job.get("share_objects") else dict(it)
            if job.get("second_request"):
                # one response object built around a re-iterable event source, mounted as an application: the SECOND client gets the same stream
                class Source:
                    def __iter__(self):
                        return gen()
                app = M.SendEventResponse(Source(), ping_interval=30)
                gw.run_wsgi(app, {"REQUEST_METHOD": "GET"})
                ev, done = gw.run_wsgi(app, {"REQUEST_METHOD": "GET"})
            else:
                ev, done = gw.run_wsgi(M.SendEventResponse(gen(), ping_interval=30), {"REQUEST_METHOD": "GET"})
            wire = b"".join(x[1] for x in ev if x[0] == "body")
        else:
            async def gen():
                for k, it in enumerate(items):
                    if job.get("quiet"):  # the producer stays quiet for a symbolic number of ticks: 0..3 keep-alive pings in between
                        dly = SInt(delays[k])
                        if dly > 0:
                            await asyncio.sleep(dly)
                    yield it if job.get("share_objects") else dict(it)
            if job.get("second_request"):
                class ASource:
                    def __aiter__(self):
                        return gen()
                app = M.SendEventResponse(ASource(), ping_interval=30)
                gw.run_asgi(app, {"type": "http", "method": "GET", "headers": []}, use_loop=True)
                ev, done = gw.run_asgi(app, {"type": "http", "method": "GET", "headers": []}, use_loop=True)
            else:
                ev, done = gw.run_asgi(M.SendEventResponse(gen(), ping_interval=30), {"type": "http", "method": "GET", "headers": []}, use_loop=True)
            wire = b"".join(x[1].get("body", b"") for x in ev if x[0] == "send" and x[1]["type"] == "http.response.body")
        if not done or any(x[0] == "raise" for x in ev):
            raise Fail("stream-did-not-complete", str([x for x in ev if x[0] == "raise"]))
        events, last_id, retry = whatwg_parse(to_items((PING + wire).decode("utf-8")))
        return events, last_id

    def on_path(e, r):
        kind, v = r
        klass = detail = None
        try:
            if kind == "exc":
                if isinstance(v, Fail):
                    raise v
                raise Fail(f"exception:{type(v).__name__}", repr(v))
            if job.get("twin"):
                raise Fail("twin-assert-false")
            events, last_id = v
            if len(events) != 2:
                raise Fail("events-lost-or-duplicated", f"{len(events)} events dispatched for 2 yielded events with data")
            (t0, x0, _), (t1, x1, i1) = events
            if not (items_equal(e, x0, expected_data(d0.items)) and items_equal(e, x1, expected_data(d1.items))):
                raise Fail("events-reordered-or-altered")
            if not items_equal(e, t0, [97]) or not items_equal(e, t1, []) or not items_equal(e, i1, [55]):
                raise Fail("event-fields-mixed-up")
        except Fail as f:
            klass, detail = f.klass, f.detail
        e.last_sat = False
        m = e.witness()
        wit = {"iface": iface, "sequence": job["seq"], "data": [conc(d0, m), conc(d1, m)], "second_request": bool(job.get("second_request")), "share_objects": bool(job.get("share_objects"))}
        if job.get("quiet"):
            wit["quiet_ticks_before_each_event"] = [m.eval(dv, True).as_long() for dv in delays]
        replayed = klass is not None or res["validated"] < 40
        with shims.off():
            cp = concrete_stream(wit) if replayed else None
        if klass is not None:
            res.violation(f"C19/SendEventResponse/{iface}/{klass.split(':')[0]}", wit, f"{klass} {detail}; concrete: {cp}", (cp is not None) or bool(job.get("twin")))
            return
        res.kind("one-event")
        if cp is not None:
            res["harness_errors"].append(f"symbolic path holds but the concrete run fails: {wit}: {cp}")
        res["validated"] += 1 if replayed else 0
        res.sample({"iface": iface, "sequence": job["seq"]}, limit=1)

    with shims:
        eng.explore(fn, on_path)
    res.absorb_engine(eng)
    return res


def concrete_stream(w) -> Optional[str]:
    """the same sequence with concrete data and concrete quiet periods through the unshimmed response classes (ASGI: on the
    virtual-time loop, which only replaces the clock) and the plain-text reference parser"""
    import re
    from . import gw
    prev = Engine.cur
    Engine.cur = None
    try:
        d0, d1 = w["data"]
        items = {"plain": [{"data": d0, "event": "a"}, {"data": d1, "id": "7"}],
                 "with-empty": [{"data": d0, "event": "a"}, {}, {"data": d1, "id": "7"}],
                 "empty-first": [{}, {"data": d0, "event": "a"}, {"data": d1, "id": "7"}]}[w["sequence"]]
        quiet = w.get("quiet_ticks_before_each_event")
        if w["iface"] == "wsgi":
            def gen():
                for it in items:
                    yield it if w.get("share_objects") else dict(it)
            if w.get("second_request"):
                class Source:
                    def __iter__(self):
                        return gen()
                app = WR.SendEventResponse(Source(), ping_interval=30)
                gw.run_wsgi(app, {"REQUEST_METHOD": "GET"})
                ev, done = gw.run_wsgi(app, {"REQUEST_METHOD": "GET"})
            else:
                ev, done = gw.run_wsgi(WR.SendEventResponse(gen(), ping_interval=30), {"REQUEST_METHOD": "GET"})
            wire = b"".join(x[1] for x in ev if x[0] == "body")
        else:
            async def gen():
                for k, it in enumerate(items):
                    if quiet and quiet[k] > 0:
                        await asyncio.sleep(quiet[k])
                    yield it if w.get("share_objects") else dict(it)
            if w.get("second_request"):
                class ASource:
                    def __aiter__(self):
                        return gen()
                app = AR.SendEventResponse(ASource(), ping_interval=30)
                gw.run_asgi(app, {"type": "http", "method": "GET", "headers": []}, use_loop=True)
                ev, done = gw.run_asgi(app, {"type": "http", "method": "GET", "headers": []}, use_loop=True)
            else:
                ev, done = gw.run_asgi(AR.SendEventResponse(gen(), ping_interval=30), {"type": "http", "method": "GET", "headers": []}, use_loop=True)
            wire = b"".join(x[1].get("body", b"") for x in ev if x[0] == "send" and x[1]["type"] == "http.response.body")
        if not done or any(x[0] == "raise" for x in ev):
            return f"stream did not complete: {[x for x in ev if x[0] == 'raise']}"
        events, last_id, _ = concrete_whatwg((PING + wire).decode("utf-8"))
        want = [("a", "\n".join(re.split("\r\n|\r|\n", d0))), ("", "\n".join(re.split("\r\n|\r|\n", d1)))]
        got = [(t, x) for t, x, *_ in events]
        if got != want:
            return f"parser dispatched {got!r}, yielded {want!r}"
        if last_id != "7":
            return f"last event id {last_id!r}"
        return None
    except Exception as ex:  # noqa: BLE001
        return f"exception {type(ex).__name__}: {ex}"
    finally:
        Engine.cur = prev


def jobs(tier: str):
    b = META["bounds"][tier]
    out = []
    for iface in ("wsgi", "asgi"):
        for seq in ("plain", "with-empty", "empty-first"):
            out.append(dict(name=f"stream/{iface}/{seq}", kind="stream", iface=iface, seq=seq, charset="utf-8", fields=[]))
    for iface in ("wsgi", "asgi"):
        out.append(dict(name=f"stream/{iface}/plain/second-request-same-event-objects", kind="stream", iface=iface, seq="plain", charset="utf-8", fields=[],
                        second_request=True, share_objects=True))
    out.append(dict(name="stream/wsgi/plain/second-request-on-the-same-object", kind="stream", iface="wsgi", seq="plain", charset="utf-8", fields=[], second_request=True))
    for seq in ("plain", "with-empty"):
        out.append(dict(name=f"stream/asgi/{seq}/quiet-producer", kind="stream", iface="asgi", seq=seq, charset="utf-8", fields=[], quiet=True))
    for charset in b["charsets"]:
        for ld in range(0, b["data_len_max"] + 1):
            out.append(dict(name=f"{charset}/data{ld}", charset=charset, fields=["data"], ld=ld, weight=4 ** ld))
        dl = min(2, b["data_len_max"])
        for ln in range(0, b["name_len_max"] + 1):
            out.append(dict(name=f"{charset}/event{ln}+data{dl}", charset=charset, fields=["event", "data"], ld=dl, ln=ln, weight=4 ** (ln + dl)))
            out.append(dict(name=f"{charset}/event{ln}-only", charset=charset, fields=["event"], ln=ln))
        for li in range(0, b["id_len_max"] + 1):
            out.append(dict(name=f"{charset}/id{li}+data1", charset=charset, fields=["data", "id"], ld=1, li=li, weight=4 ** (li + 1)))
        out.append(dict(name=f"{charset}/retry+data1", charset=charset, fields=["retry", "data"], ld=1))
        out.append(dict(name=f"{charset}/retry-only", charset=charset, fields=["retry"]))
        out.append(dict(name=f"{charset}/all-fields", charset=charset, fields=["id", "event", "retry", "data"], ld=1, ln=1, li=1, weight=60))
        out.append(dict(name=f"{charset}/all-fields-rev+ping", charset=charset, fields=["data", "retry", "event", "id"], ld=2, ln=1, li=1, ping=True, weight=200))
    # many lines: more line breaks than any small split limit, the last lines symbolic (they may look like fields: "id: x")
    for charset in b["charsets"][:1]:
        for lb, tag in (("\n", "lf"), ("\r", "cr"), ("\r\n", "crlf")):
            t = lb.join(f"l{i}" for i in range(9)) + lb + "*" + lb + "**"
            out.append(dict(name=f"{charset}/data-12-lines-{tag}", charset=charset, fields=["data"], ld=3, dtemplate=t, weight=70))
    # a log tail / CSV dump: far more lines than any flag constant misplaced into maxsplit (re.ASCII = 256, re.DOTALL = 16, ...)
    out.append(dict(name="utf-8/data-300-lines-lf", charset="utf-8", fields=["data"], ld=2, dtemplate="\n".join(f"r{i}" for i in range(298)) + "\n*\n*", weight=70))
    out.append(dict(name="twin/data1", charset="utf-8", fields=["data"], ld=1, twin=True))
    return out


def replay(rec) -> int:
    w = rec["witness"]
    if "sequence" in w:
        cp = concrete_stream(w)
        print(f"replay C19: {w!r} -> {cp}")
        return 1 if cp else 0
    cp = concrete_problem(w["event"], w["charset"], w.get("ping", False))
    print(f"replay C19: {w!r} -> {cp}")
    return 1 if cp else 0
