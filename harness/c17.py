"""C17 -- multi-value mappings stay consistent under any operation sequence.

Real code run: MultiMapping.__init__/__getitem__/__iter__/__len__/getlist/multi_items/__eq__,
MutableMultiMapping.__setitem__/__delitem__/setlist/poplist/append (+ the MutableMapping mixin
methods pop/popitem/setdefault/update/clear that are built on them), QueryParams / FormData
construction from pair lists.

ONE INDUCTIVE STEP: the pre-state is an arbitrary pair list (length <= L) handed to the real
constructor (every state with _dict == dict(_list) is such a list, so this is every reachable
state up to the length bound); one operation with symbolic keys/values is applied to the real
object and to a plain list-of-pairs reference model; afterwards every observable view must agree
and the representation invariant must hold again.  Keys and values are unbounded z3 integers:
which keys coincide is decided by the solver (each dict probe / == on keys is a fork).
"""
from __future__ import annotations

from typing import Any, List, Tuple

import z3

import baize.datastructures as DS
from baize.datastructures import FormData, MultiMapping, MutableMultiMapping, QueryParams

from engine import report
from engine.forksym import Engine, SInt, conc, cur, term_of

PID = "C17"
OPS = ["assign", "delete", "append", "setlist0", "setlist1", "setlist2", "poplist", "pop", "pop_default", "popitem",
       "setdefault", "update1", "update2", "update_multi", "clear", "views", "none_then_assign", "setdefault_nodefault_then_assign"]

META = {
    "functions": lambda: [MultiMapping.__init__, MultiMapping.__getitem__, MultiMapping.__iter__, MultiMapping.__len__, MultiMapping.getlist,
                          MultiMapping.multi_items, MultiMapping.__eq__, MutableMultiMapping.__setitem__, MutableMultiMapping.__delitem__,
                          MutableMultiMapping.setlist, MutableMultiMapping.poplist, MutableMultiMapping.append, QueryParams.__init__],
    "engines": ["E-FS (forksym): symbolic integer keys/values inside the real dict/list (every key comparison is a solver-decided fork)"],
    "stubs": ["none (keys are proxies with a constant hash so that CPython's dict compares them through the solver)"],
    "assumptions": ["keys and values are integers (the mapping code is type-agnostic: it only hashes and compares keys)",
                    "every key stored in one mapping is a proxy (no mixing with concrete keys)"],
    "bounds": {"quick": {"pre_state_pairs_max": 3, "pre_state_pairs_all_ops": 2, "ops": len(OPS)}, "thorough": {"pre_state_pairs_max": 4, "pre_state_pairs_all_ops": 3, "ops": len(OPS)}},
    "outside": ["pre-states longer than the bound (the step argument is inductive only up to that length)", "non-hashable / exotic key types",
                "query-string round trip: texts longer than the enumerated shapes (<= 3 characters per text, <= 3 pairs); lone surrogates (not text)"],
    "expect_kinds": {"all": ["ok", "keyerror"]},
}


class Fail(Exception):
    def __init__(self, klass, detail=""):
        self.klass, self.detail = klass, detail


# ------------------------------------------------------------------ reference model (plain list of pairs)
def m_keys(pairs):
    ks = []
    for k, _ in pairs:
        if not any(bool(k == q) for q in ks):
            ks.append(k)
    return ks


def m_has(pairs, k):
    return any(bool(k == q) for q, _ in pairs)


def m_vals(pairs, k):
    return [v for q, v in pairs if q == k]


def m_remove(pairs, k):
    return [(q, v) for q, v in pairs if not (q == k)]


def m_assign(pairs, k, v):
    if m_has(pairs, k):
        out = []
        done = False
        for q, w in pairs:
            if q == k:
                if not done:
                    out.append((k, v))
                    done = True
            else:
                out.append((q, w))
        return out
    return pairs + [(k, v)]


def same(e: Engine, a, b) -> bool:
    """solver-decided equality of two int-ish values on the path (None -- a legal stored value -- only equals None)"""
    if a is None or b is None:
        return a is None and b is None
    ta, tb = term_of(a), term_of(b)
    if z3.eq(ta, tb):
        return True
    return not e.check(ta != tb)


def same_list(e, xs, ys, what):
    if len(xs) != len(ys):
        raise Fail(f"{what}-length", f"{len(xs)} != {len(ys)}")
    for x, y in zip(xs, ys):
        if isinstance(x, tuple):
            if not (same(e, x[0], y[0]) and same(e, x[1], y[1])):
                raise Fail(what)
        elif not same(e, x, y):
            raise Fail(what)


def check_views(e: Engine, m, pairs, probe):
    """every observable view of the real mapping agrees with the model list"""
    handed_out = m.multi_items()
    same_list(e, handed_out, pairs, "multi_items")
    # what a view hands out is the caller's to edit: the mapping must not change with it
    if isinstance(handed_out, list):
        handed_out.append(("junk-key", "junk-value"))
        handed_out.reverse()
        same_list(e, m.multi_items(), pairs, "multi_items-after-the-caller-edited-an-earlier-result")
    for k_ in m_keys(pairs)[:1]:
        got_ = m.getlist(k_)
        if isinstance(got_, list):
            got_.append("junk-value")
            same_list(e, m.getlist(k_), m_vals(pairs, k_), "getlist-after-the-caller-edited-an-earlier-result")
    ks = m_keys(pairs)
    real_keys = list(m.keys())
    if len(real_keys) != len(ks) or len(m) != len(ks):
        raise Fail("len-or-keys", f"len={len(m)} keys={len(real_keys)} model={len(ks)}")
    for k in ks:
        if not any(same(e, k, r) for r in real_keys):
            raise Fail("keys-missing-key")
        if not (k in m):
            raise Fail("membership")
        vals = m_vals(pairs, k)
        same_list(e, m.getlist(k), vals, "getlist")
        if not same(e, m[k], vals[-1]):
            raise Fail("getitem-not-last-value")
    # a fresh probe key: membership / getlist / KeyError agree with the model
    if m_has(pairs, probe):
        if not (probe in m):
            raise Fail("membership-probe")
    else:
        if probe in m:
            raise Fail("membership-phantom-key")
        if m.getlist(probe) != []:
            raise Fail("getlist-phantom-values")
        try:
            m[probe]
        except KeyError:
            pass
        else:
            raise Fail("getitem-phantom-key")
    # representation invariant (needed for the induction)
    d, lst = m._dict, m._list
    if len(d) != len(ks):
        raise Fail("invariant-dict-size")
    for k in ks:
        if not same(e, d[k], m_vals(pairs, k)[-1]):
            raise Fail("invariant-dict-value")
    # equality with an independently built mapping of the same pairs, in another order
    other = type(m)(list(reversed(pairs)))
    # (== sorts the pair lists, so it needs mutually orderable values: not asked of a mapping that holds None next to other values)
    if not any(v_ is None for _, v_ in pairs) and not (m == other):
        raise Fail("eq-same-pairs")
    for cls, src in ((QueryParams, None), (FormData, None), (QueryParams, m), (FormData, m), (MultiMapping, m), (MutableMultiMapping, m)):
        o = cls(list(pairs) if src is None else src)  # from the pair list and (cross-class) from the mapping itself
        same_list(e, o.multi_items(), pairs, f"{cls.__name__}-multi_items")
        if len(o) != len(ks):
            raise Fail(f"{cls.__name__}-len")
        for k in ks:
            same_list(e, o.getlist(k), m_vals(pairs, k), f"{cls.__name__}-getlist")
            if not same(e, o[k], m_vals(pairs, k)[-1]):
                raise Fail(f"{cls.__name__}-getitem")


def apply(op: str, m: MutableMultiMapping, pairs, k, v, w, k2):
    """apply op to the real mapping and to the model; returns (new model, outcome kind)"""
    if op == "assign":
        m[k] = v
        return m_assign(pairs, k, v), "ok"
    if op == "append":
        m.append(k, v)
        return pairs + [(k, v)], "ok"
    if op in ("none_then_assign", "setdefault_nodefault_then_assign"):
        # None is an ordinary value (setdefault(k) stores it): a key whose current value is None is still a present key
        if op == "none_then_assign":
            m.append(k, None)
            pairs = pairs + [(k, None)]
        else:
            had = m_has(pairs, k)
            m.setdefault(k)
            if not had:
                pairs = pairs + [(k, None)]
        m[k2] = v
        return m_assign(pairs, k2, v), "ok"
    if op == "delete":
        present = m_has(pairs, k)
        try:
            del m[k]
        except KeyError:
            if present:
                raise Fail("delete-keyerror-on-present-key")
            return pairs, "keyerror"
        if not present:
            raise Fail("delete-absent-key-no-error")
        return m_remove(pairs, k), "ok"
    if op.startswith("setlist"):
        vals = [v, w][: int(op[-1])]
        m.setlist(k, list(vals))
        return m_remove(pairs, k) + [(k, x) for x in vals], "ok"
    if op == "poplist":
        got = m.poplist(k)
        exp = m_vals(pairs, k)
        same_list(cur(), got, exp, "poplist-return")
        return m_remove(pairs, k), "ok"
    if op in ("pop", "pop_default"):
        present = m_has(pairs, k)
        try:
            got = m.pop(k) if op == "pop" else m.pop(k, w)
        except KeyError:
            if present or op == "pop_default":
                raise Fail("pop-keyerror")
            return pairs, "keyerror"
        exp = m_vals(pairs, k)[-1] if present else w
        if not present and op == "pop":
            raise Fail("pop-absent-no-error")
        if not same(cur(), got, exp):
            raise Fail("pop-return")
        return m_remove(pairs, k), "ok"
    if op == "popitem":
        try:
            gk, gv = m.popitem()
        except KeyError:
            if pairs:
                raise Fail("popitem-keyerror-nonempty")
            return pairs, "keyerror"
        if not pairs:
            raise Fail("popitem-empty-no-error")
        if not m_has(pairs, gk) or not same(cur(), gv, m_vals(pairs, gk)[-1]):
            raise Fail("popitem-return")
        return m_remove(pairs, gk), "ok"
    if op == "setdefault":
        got = m.setdefault(k, v)
        if m_has(pairs, k):
            if not same(cur(), got, m_vals(pairs, k)[-1]):
                raise Fail("setdefault-return")
            return pairs, "ok"
        if not same(cur(), got, v):
            raise Fail("setdefault-return")
        return pairs + [(k, v)], "ok"
    if op == "update1":
        m.update([(k, v)])
        return m_assign(pairs, k, v), "ok"
    if op == "update2":
        m.update([(k, v), (k2, w)])
        return m_assign(m_assign(pairs, k, v), k2, w), "ok"
    if op == "update_multi":
        other = MutableMultiMapping([(k, v), (k, w)])
        m.update(other)  # Mapping protocol: keys() + [] -> the last value wins
        return m_assign(pairs, k, w), "ok"
    if op == "clear":
        m.clear()
        return [], "ok"
    if op == "views":
        return pairs, "ok"
    raise ValueError(op)


def concrete_check(op, init, k, v, w, k2, probe):
    """same step on plain ints with plain Python comparison (replay / validation)"""
    class _E:
        @staticmethod
        def check(*a):
            raise AssertionError("no solver in concrete mode")

    def csame(e, a, b):
        return a == b
    g = globals()
    old = g["same"]
    g["same"] = csame
    try:
        raw = list(init)
        siblings = [MultiMapping(raw), QueryParams(raw)]
        m = MutableMultiMapping(raw)
        siblings += [MutableMultiMapping(m), QueryParams(m)]
        siblings += [MutableMultiMapping(iter(raw)), QueryParams(p_ for p_ in raw), FormData(zip([a_ for a_, _ in raw], [b_ for _, b_ in raw]))]
        check_views(None, m, list(init), probe)
        pairs, kind = apply(op, m, list(init), k, v, w, k2)
        check_views(None, m, pairs, probe)
        if raw != list(init):
            raise Fail("callers-pair-list-modified", f"{list(init)} -> {raw}")
        for sib in siblings:
            try:
                check_views(None, sib, list(init), probe)
            except Fail as f:
                raise Fail("sibling-mapping-changed", f"{type(sib).__name__} built from the same pairs: {f.klass}") from None
    except Fail as f:
        return f"{f.klass}: {f.detail}"
    except Exception as ex:  # noqa: BLE001
        return f"exception {type(ex).__name__}: {ex}"
    finally:
        g["same"] = old
    return None


def run_job(job) -> report.JobResult:
    if job.get("kind") == "roundtrip":
        return job_roundtrip(job)
    if job.get("kind") == "roundtrip-many":
        return job_roundtrip_many(job)
    res = report.JobResult.new(job["name"])
    twin = job.get("twin", False)
    op, n = job["op"], job["n"]
    eng = Engine(budget_s=job.get("budget", 1200))
    K = [z3.Int(f"k{i}") for i in range(n)]
    V = [z3.Int(f"v{i}") for i in range(n)]
    kk, vv, ww, k2, pr = z3.Int("k"), z3.Int("v"), z3.Int("w"), z3.Int("k2"), z3.Int("probe")
    allv = K + V + [kk, vv, ww, k2, pr]

    def fn():
        init = [(SInt(a), SInt(b)) for a, b in zip(K, V)]
        raw = list(init)  # the caller's own pair list: mappings built from it must not share state through it
        siblings = [MultiMapping(raw), QueryParams(raw)] if job.get("siblings", True) else []
        m = MutableMultiMapping(raw)
        if job.get("siblings", True):
            siblings += [MutableMultiMapping(m), QueryParams(m)]  # copies made FROM the mapping are independent of it too
            # the pairs argument is any iterable: one-shot iterators (generator, zip, iter(list)) can be read only once
            siblings += [MutableMultiMapping(iter(raw)), QueryParams(p_ for p_ in raw), FormData(zip([a_ for a_, _ in raw], [b_ for _, b_ in raw]))]
        check_views(cur(), m, list(init), SInt(pr))  # constructor establishes the invariant / views
        pairs, kind = apply(op, m, list(init), SInt(kk), SInt(vv), SInt(ww), SInt(k2))
        if twin:
            raise Fail("twin-assert-false")
        check_views(cur(), m, pairs, SInt(pr))
        if len(raw) != len(init) or any(a is not b for a, b in zip(raw, init)):
            raise Fail("callers-pair-list-modified", f"{len(init)} pairs handed in, {len(raw)} afterwards")
        for sib in siblings:
            try:
                check_views(cur(), sib, list(init), SInt(pr))
            except Fail as f:
                raise Fail("sibling-mapping-changed", f"{type(sib).__name__} built from the same pairs: {f.klass}") from None
        return kind

    def on_path(e, r):
        kind, v = r
        e.check() if not (kind == "exc" and isinstance(v, Fail)) else None
        try:
            m = e.solver.model()
        except z3.Z3Exception:
            m = e.model()
        vals = {str(x): m.eval(x, True).as_long() for x in allv}
        init = [(vals[f"k{i}"], vals[f"v{i}"]) for i in range(n)]
        wit = {"op": op, "initial_pairs": init, "k": vals["k"], "v": vals["v"], "w": vals["w"], "k2": vals["k2"], "probe": vals["probe"]}
        cp = concrete_check(op, init, vals["k"], vals["v"], vals["w"], vals["k2"], vals["probe"])
        if kind == "exc":
            klass = v.klass if isinstance(v, Fail) else f"exception:{type(v).__name__}"
            res.violation(f"C17/{op}/{klass}", wit, f"{klass} {getattr(v, 'detail', repr(v))}; concrete: {cp}", (cp is not None) or twin)
            return
        res.kind(v)
        if cp is not None:
            res["harness_errors"].append(f"symbolic step holds but concrete run fails: {wit}: {cp}")
        res["validated"] += 1
        res.sample(wit, limit=1)

    eng.explore(fn, on_path)
    res.absorb_engine(eng)
    return res


# ------------------------------------------------------------------ QueryParams(str(q)) == q
# what urlencode / parse_qsl look for: separators, the escape character, '+' / space; every other character is either passed through
# or percent-encoded as UTF-8 bytes and decoded back -- a class-correct placeholder (ASCII / Latin-1 / beyond) takes the same route
QS_SENSITIVE = tuple(sorted(ord(c) for c in "&=+%; "))


def job_roundtrip(job) -> report.JobResult:
    """a query mapping parsed from its own string form equals itself: keys/values are texts over full Unicode; urlencode / parse_qsl run
    unmodified on real strings in which query-sensitive code points are real characters and all others class-correct placeholders"""
    from engine.symseq import SStr
    from . import gw
    res = report.JobResult.new(job["name"])
    twin = job.get("twin", False)
    shape = job["shape"]  # per pair (key length, value length)
    eng = Engine(budget_s=900)
    eng.char_alphabet = "c1"
    eng.sensitive_chars = QS_SENSITIVE
    texts = []
    for i, (lk, lv) in enumerate(shape):
        k = SStr.fresh(lk, f"k{i}_", 0, 0x10FFFF, eng.solver)
        v = SStr.fresh(lv, f"v{i}_", 0, 0x10FFFF, eng.solver)
        for c in k.items + v.items:
            eng.solver.add(z3.Or(c.e < 0xD800, c.e > 0xDFFF), c.e < 0xF0000)  # text: no lone surrogates; placeholder plane reserved
        texts.append((k, v))

    def fn():
        e = cur()
        pairs = []
        for i, (k, v) in enumerate(texts):
            kk = k
            # equal keys must be the SAME text in the mapping: decide key coincidence with earlier same-length keys by a fork
            for pk, _ in texts[:i]:
                if len(pk.items) == len(k.items) and k.items and all(bool(a == b) for a, b in zip(pk.items, k.items)):
                    kk = pk
                    break
            pairs.append((str(kk), str(v)))
        q = QueryParams(pairs)
        text = str(q)
        # the query string as the bytes an ASGI scope carries (the documented bytes form of the constructor), or as text
        q2 = QueryParams(text.encode("ascii")) if job.get("as_bytes") else QueryParams(text)
        if twin:
            raise Fail("twin-assert-false")
        a, b = q.multi_items(), q2.multi_items()
        if len(a) != len(b):
            raise Fail("roundtrip-pair-count", f"{len(a)} pairs -> {text!r} -> {len(b)} pairs")
        for (ak, av), (bk, bv) in zip(a, b):
            if not gw.same_items(e, ak, bk) or not gw.same_items(e, av, bv):
                raise Fail("roundtrip-pair-changed")
        if not (q2 == q):
            raise Fail("roundtrip-not-equal", "QueryParams(str(q)) != q although the item lists agree")
        return "ok"

    def on_path(e, r):
        kind, v = r
        klass = detail = None
        if kind == "exc":
            klass, detail = (v.klass, v.detail) if isinstance(v, Fail) else (f"exception:{type(v).__name__}", repr(v))
        if klass != "roundtrip-pair-changed":
            e.last_sat = False
        m = e.witness()
        wit = {"pairs": [[conc(k, m), conc(v_, m)] for k, v_ in texts], "as_bytes": bool(job.get("as_bytes"))}
        cp = concrete_roundtrip(wit)
        if klass is not None:
            res.violation(f"C17/query-string-roundtrip/{klass.split(':')[0]}", wit, f"{klass} {detail}; concrete: {cp}", (cp is not None) or twin)
            return
        res.kind("ok")
        if cp is not None:
            res["harness_errors"].append(f"symbolic path holds but concrete run fails: {wit}: {cp}")
        res["validated"] += 1
        res.sample(wit, limit=1)

    eng.explore(fn, on_path)
    res.absorb_engine(eng)
    return res


def job_roundtrip_many(job) -> report.JobResult:
    """CONCRETE recipe (no symbolic text): query mappings with many pairs, around the 1000-field mark some parsers stop at; the pair count is a
    fork-decided choice from a list"""
    res = report.JobResult.new(job["name"])
    eng = Engine(budget_s=300)
    COUNTS = [999, 1000, 1001, 5000]

    def fn():
        n = COUNTS[cur().choose(len(COUNTS), "pairs")]
        cur().path_notes["pairs"] = n
        pairs = [(f"k{i % 7}", f"v{i}") for i in range(n)]
        cp = concrete_roundtrip({"pairs": pairs})
        if cp is not None:
            raise Fail("roundtrip-many-pairs", f"{n} pairs: {cp[:120]}")
        return "ok"

    def on_path(e, r):
        kind, v = r
        n = e.path_notes.get("pairs")
        if kind == "exc":
            klass, detail = (v.klass, v.detail) if isinstance(v, Fail) else (f"exception:{type(v).__name__}", repr(v))
            res.violation(f"C17/query-string-roundtrip/{klass.split(':')[0]}", {"pairs": [[f"k{i % 7}", f"v{i}"] for i in range(n or 0)]}, f"{klass} {detail}", True)
            return
        res.kind("ok")
        res["validated"] += 1
        res.sample({"pairs": n}, limit=1)
    eng.explore(fn, on_path)
    res.absorb_engine(eng)
    return res


def concrete_roundtrip(w):
    prev = Engine.cur
    Engine.cur = None
    try:
        q = QueryParams([tuple(p) for p in w["pairs"]])
        q2 = QueryParams(str(q).encode("ascii")) if w.get("as_bytes") else QueryParams(str(q))
        if q2.multi_items() != q.multi_items() or not (q2 == q):
            return f"{q.multi_items()!r} -> {str(q)!r} -> {q2.multi_items()!r}"
        return None
    except Exception as ex:  # noqa: BLE001
        return f"exception {type(ex).__name__}: {ex}"
    finally:
        Engine.cur = prev


def jobs(tier: str):
    nmax = META["bounds"][tier]["pre_state_pairs_max"]
    out = []
    shapes = [[], [(0, 0)], [(1, 0)], [(0, 1)], [(1, 1)], [(2, 1)], [(1, 2)], [(1, 1), (1, 1)], [(1, 0), (1, 1)], [(0, 1), (1, 0)]]
    if tier == "thorough":
        shapes += [[(2, 2)], [(1, 0), (1, 0), (1, 1)], [(2, 0), (2, 1)], [(1, 3)]]  # at most 5 symbolic characters per job (9 classes each)
    for sh in shapes:
        out.append(dict(name="roundtrip/" + ("+".join(f"k{a}v{b}" for a, b in sh) or "empty"), kind="roundtrip", shape=sh, weight=8 ** sum(a + b for a, b in sh)))
    for sh in ([(1, 1)], [(0, 2)], [(1, 0), (1, 1)]):
        out.append(dict(name="roundtrip-bytes/" + "+".join(f"k{a}v{b}" for a, b in sh), kind="roundtrip", shape=sh, as_bytes=True, weight=8 ** sum(a + b for a, b in sh)))
    out.append(dict(name="roundtrip/many-pairs", kind="roundtrip-many", weight=40))
    out.append(dict(name="twin/roundtrip", kind="roundtrip", shape=[(1, 1)], twin=True))
    core = ("assign", "delete", "setlist1", "poplist", "append")
    for op in OPS:
        for n in range(0, nmax + 1):
            if n == nmax and op not in core:
                continue  # the longest pre-state only for the five primitive mutators everything else is built on
            # sibling / aliasing views only up to 3 pairs: with 4 they alone push the primitive mutators past their time budget
            out.append(dict(name=f"{op}/pre{n}", op=op, n=n, weight=6 ** n, siblings=(n <= 3)))
    out.append(dict(name="twin/assign", op="assign", n=1, twin=True))
    return out


def replay(rec) -> int:
    w = rec["witness"]
    if "pairs" in w:
        cp = concrete_roundtrip(w)
        print(f"replay C17: {w} -> {cp}")
        return 1 if cp else 0
    cp = concrete_check(w["op"], [tuple(p) for p in w["initial_pairs"]], w["k"], w["v"], w["w"], w["k2"], w["probe"])
    print(f"replay C17: {w} -> {cp}")
    return 1 if cp else 0
