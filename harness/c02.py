"""C02 -- file responses deliver exactly the requested bytes with truthful framing.

Real code run (both stacks): FileResponse.__init__/__call__/handle_all/handle_single_range/
handle_several_ranges, asgi create_send_or_zerocopy (both branches), FileResponseMixin.
generate_multipart / judge_if_range / generate_common_headers / generate_etag / parse_range,
BaseResponse.list_headers, asgi.helper.send_http_start/body.

Symbolic: file size, chunk size, every first/last/suffix number of the Range header (the file
is an uninterpreted byte array: reads return (offset, length) slices, so slice exactness is
byte exactness).  Enumerated: interface (wsgi / asgi / asgi+zero-copy), GET/HEAD, range forms,
If-Range recipe, content type.

Two job families:
  data     sizes and numbers UNBOUNDED (rendered integers are opaque canonical tokens); decides
           status, which bytes are sent, Content-Range, Content-Length for 200/single-range,
           If-Range, HEAD, zero-copy message fields; chunk loops unwound K times (asserted).
  framing  digit-exact rendering (sizes < 10^D): multipart/byteranges Content-Length ==
           number of body bytes actually emitted == independent closed formula.
"""
from __future__ import annotations

import itertools
import os as _os
import re as _re
from email.utils import formatdate
from typing import Any, Dict, List, Optional, Tuple

import z3

import baize.asgi.helper as AH
import baize.asgi.responses as A
import baize.responses as R
import baize.wsgi.responses as W

from engine import report
from engine.forksym import Engine, SInt, Unsupported, UnwindExceeded, conc, cur, ite, lift, smin, term_of
from engine.shims import Shims, make_range_shim, min_shim
from engine.vloop import drive

from . import c03 as C3

PID = "C02"
MTIME = 1700000000.0
BOUNDARY = "0123456789abc"

META = {
    "functions": lambda: [W.FileResponse.__init__, W.FileResponse.__call__, W.FileResponse.handle_all, W.FileResponse.handle_single_range,
                          W.FileResponse.handle_several_ranges, A.FileResponse.__init__, A.FileResponse.__call__, A.FileResponse.handle_all,
                          A.FileResponse.handle_single_range, A.FileResponse.handle_several_ranges, A.FileResponse.create_send_or_zerocopy,
                          A.open_for_sendfile, R.FileResponseMixin.generate_multipart, R.FileResponseMixin.judge_if_range,
                          R.FileResponseMixin.generate_common_headers, R.FileResponseMixin.generate_etag, R.FileResponseMixin.parse_range,
                          R.BaseResponse.list_headers, AH.send_http_start, AH.send_http_body],
    "engines": ["E-FS (forksym, z3 LIA)"],
    "stubs": [
        "baize.wsgi.responses.open -> symbolic file: read(n) returns Slice(offset, min(n, size-pos)); seek(p)",
        "baize.asgi.responses.os -> os.open/read/lseek/close on the same symbolic file (other attributes: real os)",
        "baize.asgi.responses.run_in_threadpool -> direct call (no thread); coroutine driven without an event loop",
        "baize.asgi.responses.len -> length of a Slice is its symbolic length",
        "baize.wsgi.responses.range / min -> unwinding range (bound K, asserted) / ITE min",
        "baize.{wsgi,asgi}.responses.random_choices -> fixed 13-char boundary",
        "baize.responses.re / int -> Range spec stand-ins (form enumerated, numbers symbolic), as in C03 layer ints",
        "os.stat_result -> object with symbolic st_size, fixed st_mtime and regular-file st_mode",
    ],
    "assumptions": [
        "file content is an uninterpreted array; a read returns exactly min(n, size-pos) bytes (no short reads, no I/O errors, "
        "file not modified between stat and read)",
        "Range headers are syntactically well-formed spec lists (text-level parsing is C03's subject)",
        "sha1 of the rendered mtime-size text is computed on token text (ETag equality is exercised through the real comparison)",
    ],
    "bounds": {
        "quick": {"data": "0..2 range specs, all numbers unbounded, <=3 chunks per range/file (unwinding K=3 asserted)",
                  "framing": "2 range specs, sizes < 10^4 digit-exact, chunk >= size"},
        "thorough": {"data": "0..3 range specs, all numbers unbounded, K=4", "framing": "2..3 range specs, sizes < 10^6 (2 specs) / < 10^3 (3 specs)"},
    },
    "outside": ["more range specs / more chunks per range than the bound", "real file I/O, short reads, symlinks", "digit counts above the framing bound"],
    "expect_kinds": {"all": ["200", "206-single", "206-multi", "400", "416"]},
}


# ------------------------------------------------------------------ symbolic file
class Slice:
    """bytes read from the file: [off, off+ln)"""

    def __init__(self, off, ln):
        self.off, self.ln = off, ln

    def __bool__(self):
        return True


class SFile:
    def __init__(self, size):
        self.size = size
        self.pos: Any = 0
        self.closed = False

    def __enter__(self):
        return self

    def __exit__(self, *a):
        self.closed = True
        return False

    def seek(self, p, whence=0):
        self.pos = p

    def read(self, n):
        rem = lift(self.size) - self.pos
        ln = ite(lift(n) < rem, n, rem)
        ln = ite(ln < 0, 0, ln)
        r = Slice(self.pos, ln)
        self.pos = self.pos + ln
        return r


class Stat:
    st_mode = 0o100644
    st_mtime = MTIME
    st_ctime = MTIME

    def __init__(self, size):
        self.st_size = size


class OsShim:
    """`os` for baize.asgi.responses: fd calls go to the symbolic file."""
    SEEK_SET = _os.SEEK_SET
    O_RDONLY = _os.O_RDONLY
    name = _os.name
    path = _os.path

    def __init__(self, size):
        self._size = size
        self.files: Dict[int, SFile] = {}
        self.opened = 0
        self.closed: List[int] = []

    def open(self, path, flags):
        self.opened += 1
        fd = 100 + self.opened
        self.files[fd] = SFile(self._size)
        return fd

    def read(self, fd, n):
        return self.files[fd].read(n)

    def lseek(self, fd, off, whence):
        self.files[fd].seek(off)

    def close(self, fd):
        self.closed.append(fd)

    def __getattr__(self, k):
        return getattr(_os, k)


async def _direct(fn, *a, **k):
    return fn(*a, **k)


def _len(x):
    if isinstance(x, Slice):
        return x.ln
    return len(x)


# ------------------------------------------------------------------ run one response
def response_class(iface: str, subclass: bool = False):
    """the stock FileResponse, or a subclass that overrides the documented generate_etag hook (its tag is what the response sends)"""
    base = W.FileResponse if iface == "wsgi" else A.FileResponse
    if not subclass:
        return base

    class Tagged(base):  # type: ignore[misc, valid-type]
        @staticmethod
        def generate_etag(stat_result):
            return "v2-" + R.FileResponseMixin.generate_etag(stat_result)
    return Tagged


def run_response(iface: str, method: str, size, chunk, range_hdr: Optional[str], if_range: Optional[str], ctype: str, K: int, resp=None, earlier=None,
                 mtime: float = MTIME):
    """Run the real FileResponse on the symbolic file. Returns (status, headers list[(str,str)], body items, extra).
    earlier: Range header of a request the SAME response object answered before (a FileResponse mounted as an application serves many)."""
    st = Stat(size)
    st.st_mtime = st.st_ctime = mtime
    if resp is None:
        resp = (W if iface == "wsgi" else A).FileResponse("/d/file.bin", content_type=ctype, stat_result=st, chunk_size=chunk)
    if earlier is not None:
        run_response(iface, "GET", size, chunk, earlier, None, ctype, K, resp=resp)
    if iface == "wsgi":
        env = {"REQUEST_METHOD": method}
        if range_hdr is not None:
            env["HTTP_RANGE"] = range_hdr
        if if_range is not None:
            env["HTTP_IF_RANGE"] = if_range
        calls = []

        def sr(status, headers, exc_info=None):
            calls.append((status, list(headers)))
        body = list(resp(env, sr))
        if len(calls) != 1:
            raise AssertionError(f"start_response called {len(calls)} times")
        return int(calls[0][0].split(" ")[0]), calls[0][1], body, {"resp": resp}
    scope: Dict[str, Any] = {"type": "http", "method": method, "headers": []}
    if range_hdr is not None:
        scope["headers"].append((b"range", range_hdr.encode("latin-1")))
    if if_range is not None:
        scope["headers"].append((b"if-range", if_range.encode("latin-1")))
    if iface == "asgi-zc":
        scope["extensions"] = {"http.response.zerocopysend": {}}
    sent: List[Dict[str, Any]] = []

    async def send(m):
        sent.append(m)

    async def receive():
        raise AssertionError("file response must not call receive()")
    drive(resp(scope, receive, send))
    if not sent or sent[0]["type"] != "http.response.start":
        raise AssertionError("first ASGI message is not http.response.start")
    hdrs = [(k.decode("latin-1"), v.decode("latin-1")) for k, v in sent[0].get("headers", [])]
    for i, m in enumerate(sent[1:]):
        last = i == len(sent) - 2
        if m["type"] not in ("http.response.body", "http.response.zerocopysend"):
            raise AssertionError(f"unexpected message type {m['type']}")
        if bool(m.get("more_body", False)) == last:
            raise AssertionError(f"more_body flag wrong at body message {i} of {len(sent) - 1}")
    if len(sent) < 2:
        raise AssertionError("no body message")
    body = []
    for m in sent[1:]:
        if m["type"] == "http.response.zerocopysend":
            body.append(("zc", m))
        else:
            body.append(m["body"])
    return sent[0]["status"], hdrs, body, {"resp": resp, "sent": sent}


def install_shims(size, specs, K) -> Tuple[Shims, OsShim]:
    osh = OsShim(size)
    s = Shims()
    s.add(W, open=lambda p, mode="rb": SFile(size), range=make_range_shim(K), min=min_shim,
          random_choices=lambda pop, k: list(BOUNDARY[:k]))
    s.add(A, os=osh, run_in_threadpool=_direct, len=_len, min=min_shim,
          random_choices=lambda pop, k: list(BOUNDARY[:k]))
    s.add(R, re=C3._ReStub(specs), int=C3._int_l1)
    return s, osh


# ------------------------------------------------------------------ oracle
def ndigits(t, D):
    e = z3.IntVal(D + 1)
    for d in range(D, 0, -1):
        e = z3.If(t < 10 ** d, z3.IntVal(d), e)
    return e


def hdr(headers, name):
    vals = [v for k, v in headers if k.lower() == name]
    return vals


class Fail(Exception):
    def __init__(self, klass, detail=""):
        self.klass, self.detail = klass, detail


def total_len(e: Engine, body) -> Any:
    tot = z3.IntVal(0)
    for it in body:
        if isinstance(it, Slice):
            tot = tot + term_of(it.ln)
        elif isinstance(it, tuple) and it[0] == "zc":
            tot = tot + (term_of(it[1]["count"]) if "count" in it[1] else term_of(e.path_notes["size"]))
        else:
            tot = tot + len(it)
    return tot


def text_term(e: Engine, s: str, what: str):
    t = e.term_of_text(s)
    if t is None:
        raise Fail(f"{what}-not-a-number", repr(s))
    return t


def must(e: Engine, cond, klass, detail=""):
    """cond must hold on the whole path; otherwise the last model is the witness."""
    if e.check(z3.Not(cond)):
        raise Fail(klass, detail)


def emitted_ranges(e: Engine, body, iface, size, multi: bool, opaque: bool):
    """Decode the body item stream into [(start term, end term, header text|None)], asserting slice consecutiveness."""
    parts = []
    cur_part = None
    items = list(body)
    if not multi:
        cur_part = {"hdr": None, "slices": []}
        parts.append(cur_part)
    for it in items:
        if isinstance(it, Slice) or (isinstance(it, tuple) and it[0] == "zc"):
            if cur_part is None:
                raise Fail("data-outside-part")
            cur_part["slices"].append(it)
        else:
            b = bytes(it)
            if not multi:
                if b != b"":
                    raise Fail("unexpected-literal-bytes", repr(b))
                continue
            txt = b.decode("latin-1")
            if txt.startswith("--") and txt.endswith("--\n"):
                cur_part = None
                parts.append({"final": txt})
            elif txt.startswith("--"):
                cur_part = {"hdr": txt, "slices": []}
                parts.append(cur_part)
            elif txt == "\n":
                if cur_part is None:
                    raise Fail("stray-newline")
                cur_part = None
            elif txt == "":
                continue
            else:
                raise Fail("unexpected-literal-bytes", repr(b))
    out = []
    for p in parts:
        if "final" in p:
            continue
        sl = p["slices"]
        if not sl:
            if multi or p["hdr"] is not None:
                raise Fail("part-without-data")
            out.append((z3.IntVal(0), z3.IntVal(0), None))  # nothing read at all (only legal for an empty file / checked by caller)
            continue
        if isinstance(sl[0], tuple):
            if len(sl) != 1:
                raise Fail("zero-copy-multiple-messages-per-range")
            m = sl[0][1]
            if "offset" not in m or "count" not in m:
                if multi or p["hdr"] is not None:
                    raise Fail("zero-copy-missing-offset-count")
                out.append((z3.IntVal(0), term_of(size), p["hdr"]))  # whole file: offset/count omitted
                continue
            st = term_of(m["offset"])
            out.append((st, st + term_of(m["count"]), p["hdr"]))
            continue
        st = term_of(sl[0].off)
        pos = st
        for s in sl:
            must(e, term_of(s.off) == pos, "slices-not-consecutive")
            must(e, z3.And(term_of(s.off) >= 0, term_of(s.off) + term_of(s.ln) <= term_of(size)), "read-outside-file")
            pos = pos + term_of(s.ln)
        out.append((st, pos, p["hdr"]))
    return out, parts


CR_RE = _re.compile(r"bytes ([^-/ ]+)-([^-/ ]+)/([^-/ ]+)\Z")


def check_path(e: Engine, job, out, size, specs_sym, etag_ok: bool):
    """Raises Fail(klass) when the property is violated on this path; returns outcome kind."""
    status, headers, body, extra = out
    iface, method = job["iface"], job["method"]
    head = method == "HEAD"
    opaque = job["family"] == "data"
    x = z3.Int("x")
    sz = term_of(size)
    want_range = job["forms"] is not None and job["if_range"] in (None, "etag", "lastmod") and not job.get("reuse")
    for k, v in headers:
        if not isinstance(k, str) or not isinstance(v, str):
            raise Fail("non-str-header")
    cl = hdr(headers, "content-length")
    ctl = hdr(headers, "content-type")
    if not want_range:
        if status != 200:
            raise Fail("status-should-be-200", f"got {status}")
        if len(cl) != 1:
            raise Fail("content-length-header-count")
        must(e, text_term(e, cl[0], "content-length") == sz, "content-length!=size")
        if hdr(headers, "content-range"):
            raise Fail("content-range-on-200")
        if ctl != [job["ctype"]]:
            raise Fail("content-type-not-the-files", f"{ctl!r} on a 200 for a file of type {job['ctype']!r}")
        if head:
            must(e, total_len(e, body) == 0, "head-with-body")
            return "200"
        rngs, _ = emitted_ranges(e, body, iface, size, False, opaque)
        if len(rngs) != 1:
            raise Fail("200-body-shape")
        must(e, z3.And(rngs[0][0] == 0, rngs[0][1] == sz), "200-body-not-whole-file")
        must(e, total_len(e, body) == sz, "content-length!=bytes-sent")
        return "200"
    # Range must be honoured: outcome per the spec classes
    mal = z3.Or([a > b for f, a, b in specs_sym if f == "ab"] + [z3.BoolVal(False)])
    uns = z3.Or([a >= sz for f, a, b in specs_sym if f in ("ab", "a-")]
                + [z3.Or(b == 0, b > sz) for f, a, b in specs_sym if f == "-b"] + [z3.BoolVal(False)])
    if status in (400, 416):
        must(e, mal if status == 400 else uns, "wrong-rejection-class", f"status {status}")
        for it in body:
            if isinstance(it, (Slice, tuple)):
                raise Fail("file-data-on-error-response")
        if head:  # HEAD sends the headers with an empty body, whatever the status
            must(e, total_len(e, body) == 0, "head-with-body", f"status {status}")
        if status == 416:
            cr = hdr(headers, "content-range")
            if len(cr) != 1 or not cr[0].startswith("*/"):
                raise Fail("416-without-content-range", repr(cr))
            must(e, text_term(e, cr[0][2:], "416-content-range") == sz, "416-content-range!=size")
        return str(status)
    if status != 206:
        raise Fail("status-should-be-206-or-4xx", f"got {status}")
    must(e, z3.Not(z3.Or(mal, uns)), "accepted-but-should-reject")
    if len(cl) != 1:
        raise Fail("content-length-header-count")
    declared = text_term(e, cl[0], "content-length")
    multi = bool(ctl and ctl[0].startswith("multipart/byteranges"))
    if multi and f"boundary={BOUNDARY}" not in ctl[0]:
        raise Fail("multipart-boundary-param")

    def den(f, a, b):
        if f == "ab":
            return z3.And(a <= x, x <= b, x < sz)
        if f == "a-":
            return z3.And(a <= x, x < sz)
        return z3.And(sz - b <= x, 0 <= x, x < sz)
    inspec = z3.Or([den(f, a, b) for f, a, b in specs_sym])
    if head:
        must(e, total_len(e, body) == 0, "head-with-body")
        for it in body:
            if isinstance(it, (Slice, tuple)):
                raise Fail("head-with-file-data")
        if not multi:
            cr = hdr(headers, "content-range")
            if len(cr) != 1:
                raise Fail("206-content-range-count")
            mm = CR_RE.match(cr[0])
            if not mm:
                raise Fail("content-range-syntax", repr(cr[0]))
            s_, l_, z_ = (text_term(e, g, "content-range") for g in mm.groups())
            must(e, z3.And(z_ == sz, declared == l_ - s_ + 1, 0 <= s_, s_ <= l_, l_ < sz), "head-single-range-framing")
            must(e, z3.And(s_ <= x, x <= l_) == inspec, "head-range-set-mismatch")
        return "206-single" if not multi else "206-multi"
    rngs, parts = emitted_ranges(e, body, iface, size, multi, opaque)
    # which bytes were sent == what the header denotes, canonically
    must(e, z3.And([z3.And(0 <= s, s < en, en <= sz) for s, en, _ in rngs]), "empty-or-out-of-bounds-range")
    must(e, z3.And([rngs[i - 1][1] < rngs[i][0] for i in range(1, len(rngs))] + [z3.BoolVal(True)]), "ranges-not-canonical")
    inres = z3.Or([z3.And(s <= x, x < en) for s, en, _ in rngs])
    must(e, inres == inspec, "bytes-sent!=bytes-requested")
    if not multi:
        if ctl != [job["ctype"]]:
            raise Fail("content-type-not-the-files", f"{ctl!r} on a single-range 206 for a file of type {job['ctype']!r}")
        if len(rngs) != 1:
            raise Fail("single-range-shape")
        cr = hdr(headers, "content-range")
        if len(cr) != 1:
            raise Fail("206-content-range-count")
        mm = CR_RE.match(cr[0])
        if not mm:
            raise Fail("content-range-syntax", repr(cr[0]))
        s_, l_, z_ = (text_term(e, g, "content-range") for g in mm.groups())
        must(e, z3.And(s_ == rngs[0][0], l_ == rngs[0][1] - 1, z_ == sz), "content-range!=bytes-sent")
        must(e, declared == rngs[0][1] - rngs[0][0], "content-length!=bytes-sent")
        must(e, total_len(e, body) == declared, "content-length!=bytes-sent")
        return "206-single"
    # multipart/byteranges
    if len(rngs) < 2:
        raise Fail("multipart-with-one-part")
    if hdr(headers, "content-range"):
        raise Fail("content-range-on-multipart")
    finals = [p for p in parts if "final" in p]
    if len(finals) != 1 or finals[0]["final"] != f"--{BOUNDARY}--\n" or "final" not in parts[-1]:
        raise Fail("multipart-final-boundary")
    ct_inner = job["ctype"]
    for s, en, h in rngs:
        lines = h.split("\n")
        if len(lines) != 5 or lines[0] != f"--{BOUNDARY}" or lines[1] != f"Content-Type: {ct_inner}" or lines[3] != "" or lines[4] != "":
            raise Fail("multipart-part-header-shape", repr(h))
        if not lines[2].startswith("Content-Range: "):
            raise Fail("multipart-part-header-shape", repr(h))
        mm = CR_RE.match(lines[2][len("Content-Range: "):])
        if not mm:
            raise Fail("content-range-syntax", repr(lines[2]))
        s_, l_, z_ = (text_term(e, g, "content-range") for g in mm.groups())
        must(e, z3.And(s_ == s, l_ == en - 1, z_ == sz), "part-content-range!=part-bytes")
    if not opaque:
        must(e, total_len(e, body) == declared, "content-length!=bytes-sent")
        D = job["D"] + 1
        formula = z3.IntVal(len(f"--{BOUNDARY}--\n"))
        for s, en, _ in rngs:
            fixed = len(f"--{BOUNDARY}\nContent-Type: {ct_inner}\nContent-Range: bytes -/\n\n") + 1
            formula = formula + fixed + ndigits(s, D) + ndigits(en - 1, D) + ndigits(sz, D) + (en - s)
        must(e, declared == formula, "content-length!=wire-format-formula")
    return "206-multi"


# ------------------------------------------------------------------ concrete replay on a real file
def concrete_run(iface, method, size, chunk, range_hdr, if_range_kind, ctype, reuse=False, subclass=False, mtime_ns=None):
    """Unshimmed real FileResponse on a real temp file. Returns (status, headers, body bytes, problems list)."""
    import tempfile
    data = bytes((i * 7 + 3) % 251 for i in range(size))
    with tempfile.TemporaryDirectory() as d:
        p = _os.path.join(d, "file.bin")
        with open(p, "wb") as f:
            f.write(data)
        ns = mtime_ns if mtime_ns is not None else int(MTIME) * 10 ** 9
        _os.utime(p, ns=(ns, ns))
        st = _os.stat(p)
        if_range = None
        if if_range_kind == "etag":
            if_range = '"' + response_class(iface, subclass).generate_etag(st) + '"'
        elif if_range_kind == "stock-etag":
            if_range = '"' + R.FileResponseMixin.generate_etag(st) + '"'
        elif if_range_kind == "lastmod":
            if_range = formatdate(st.st_mtime, usegmt=True)
        elif if_range_kind == "weak":  # the current tag marked weak: If-Range needs a strong validator (RFC 9110 13.1.5), so it does not match
            if_range = 'W/"' + response_class(iface, subclass).generate_etag(st) + '"'
        elif if_range_kind == "unquoted":
            if_range = response_class(iface, subclass).generate_etag(st)
        elif if_range_kind is not None:
            if_range = IF_RANGE_TEXT[if_range_kind]
        if iface == "wsgi":
            resp = response_class("wsgi", subclass)(p, content_type=ctype, chunk_size=chunk)
            if reuse:
                b"".join(resp({"REQUEST_METHOD": "GET", "HTTP_RANGE": range_hdr}, lambda s_, h_, e_=None: None))
                range_hdr = None
            env = {"REQUEST_METHOD": method}
            if range_hdr is not None:
                env["HTTP_RANGE"] = range_hdr
            if if_range is not None:
                env["HTTP_IF_RANGE"] = if_range
            calls = []
            body = b"".join(resp(env, lambda s, h, e=None: calls.append((s, h))))
            status = int(calls[0][0].split()[0])
            headers = [(k.lower(), v) for k, v in calls[0][1]]
        else:
            import asyncio
            scope = {"type": "http", "method": method, "headers": []}
            if range_hdr is not None:
                scope["headers"].append((b"range", range_hdr.encode()))
            if if_range is not None:
                scope["headers"].append((b"if-range", if_range.encode()))
            if iface == "asgi-zc":
                scope["extensions"] = {"http.response.zerocopysend": {}}
            resp = response_class("asgi", subclass)(p, content_type=ctype, chunk_size=chunk)
            if reuse:
                async def _drop(m_):
                    pass

                async def _gone():
                    return {"type": "http.disconnect"}
                asyncio.run(resp({"type": "http", "method": "GET", "headers": [(b"range", range_hdr.encode())]}, _gone, _drop))
                scope["headers"] = [h_ for h_ in scope["headers"] if h_[0] != b"range"]
                range_hdr = None
            sent = []

            async def send(m):
                if m["type"] == "http.response.zerocopysend":
                    fd = m["file"]
                    if "offset" in m:
                        _os.lseek(fd, m["offset"], _os.SEEK_SET)
                    m = dict(m, body=_os.read(fd, m["count"]) if "count" in m else _os.read(fd, 1 << 30))
                sent.append(m)

            async def receive():
                return {"type": "http.disconnect"}
            asyncio.run(resp(scope, receive, send))
            status = sent[0]["status"]
            headers = [(k.decode("latin-1").lower(), v.decode("latin-1")) for k, v in sent[0].get("headers", [])]
            # what a server delivers: body events up to and including the first one with more_body false; later events are a protocol error
            body, completed, extra = b"", False, 0
            for m in sent[1:]:
                if completed:
                    extra += 1
                    continue
                body += m.get("body", b"")
                completed = not m.get("more_body", False)
            if not completed:
                raise _Protocol("the response was never completed (no body event with more_body false)")
            if extra:
                raise _Protocol(f"{extra} event(s) sent after the final body event; {len(body)} body bytes were delivered before it")
    return status, headers, body, data


class _Protocol(Exception):
    pass


def concrete_problem(iface, method, size, chunk, range_hdr, if_range_kind, ctype, reuse=False, subclass=False, mtime_ns=None) -> Optional[str]:
    """Independent concrete oracle for one request (used for replay and counterexample confirmation)."""
    try:
        status, headers, body, data = concrete_run(iface, method, size, chunk, range_hdr, if_range_kind, ctype, reuse, subclass, mtime_ns)
        if reuse:
            range_hdr = None
    except _Protocol as ex:
        return f"ASGI event sequence: {ex}"
    except Exception as ex:  # noqa: BLE001
        return f"exception {type(ex).__name__}: {ex}"
    h = dict(headers)
    honoured = range_hdr is not None and if_range_kind in (None, "etag", "lastmod")
    exp_body: Optional[bytes]
    if not honoured:
        exp_status, exp_body = 200, data
    else:
        specs = C3.parse_specs_concrete(range_hdr)
        mal, uns, pos = C3.denoted(specs, size)
        if mal or uns:
            if status not in (400, 416) or (status == 400 and not mal) or (status == 416 and not uns):
                return f"status {status} for malformed={mal} unsatisfiable={uns}"
            if status == 416 and h.get("content-range") != f"*/{size}":
                return f"416 content-range {h.get('content-range')!r}"
            if any(data[i:i + 8] in body for i in range(0, max(0, size - 8))) and size >= 16:
                return "file data on error response"
            if method == "HEAD" and body:
                return f"HEAD answered {status} with a body of {len(body)} bytes"
            return None
        exp_status = 206
        runs = []
        for p_ in sorted(pos):
            if runs and runs[-1][1] == p_:
                runs[-1][1] = p_ + 1
            else:
                runs.append([p_, p_ + 1])
        if len(runs) == 1:
            exp_body = data[runs[0][0]:runs[0][1]]
            if h.get("content-range") != f"bytes {runs[0][0]}-{runs[0][1] - 1}/{size}":
                return f"content-range {h.get('content-range')!r} for {runs}"
        else:
            exp_body = b"".join(f"--{b_}\nContent-Type: {ctype}\nContent-Range: bytes {s}-{e - 1}/{size}\n\n".encode("latin-1") + data[s:e] + b"\n"
                                for s, e in runs for b_ in [h.get("content-type", "").split("boundary=")[-1]])
            exp_body += f"--{h.get('content-type', '').split('boundary=')[-1]}--\n".encode()
    if status != exp_status:
        return f"status {status} != {exp_status}"
    if status == 200 and "content-range" in h:
        return f"content-range {h['content-range']!r} on a 200"
    if (status == 200 or (status == 206 and len(runs) == 1)) and h.get("content-type") != ctype:
        return f"content-type {h.get('content-type')!r} on a {status} for a file of type {ctype!r}"
    if "content-length" not in h:
        return "no content-length"
    if method == "HEAD":
        if body:
            return "HEAD with body"
        if int(h["content-length"]) != len(exp_body):
            return f"HEAD content-length {h['content-length']} != {len(exp_body)}"
        return None
    if int(h["content-length"]) != len(body):
        return f"content-length {h['content-length']} != bytes sent {len(body)}"
    if body != exp_body:
        return f"body differs from requested bytes (sent {len(body)}, expected {len(exp_body)})"
    return None


IF_RANGE_TEXT = {"other": '"0123456789abcdef0123456789abcdef01234567"', "weak": None, "unquoted": None, "date-other": "Tue, 14 Nov 2023 22:13:21 GMT"}
IF_RANGE_KINDS = [None, "etag", "lastmod", "other", "weak", "unquoted", "date-other"]


def run_job(job) -> report.JobResult:
    res = report.JobResult.new(job["name"])
    twin = job.get("twin", False)
    fam = job["family"]
    K = job["K"]
    forms = job["forms"]
    raw_parsed = None
    if job.get("raw_text"):
        # the Range header as concrete TEXT through the real regex (ReShim) and the real int(): long numbers, padding -- what the header denotes
        # is computed by the grammar-level reference parser of C03
        raw_parsed = C3.parse_specs_concrete(job["raw_text"])
        forms = ["ab" if a is not None and b is not None else "a-" if b is None else "-b" for a, b in raw_parsed]
        job = dict(job, forms=forms)
    eng = Engine(budget_s=job.get("budget", 1500), render_digits=job.get("D", 4) + 3)
    eng.token_alphabet = "ctl"
    eng.render_opaque = fam == "data"
    size_v, chunk_v = z3.Int("size"), z3.Int("chunk")
    eng.solver.add(size_v >= 0, chunk_v >= 1)
    size, chunk = SInt(size_v), SInt(chunk_v)
    if fam == "framing":
        eng.solver.add(size_v < 10 ** job["D"], chunk_v >= size_v)
    k = len(forms) if forms else 0
    Av = [z3.Int(f"a{i}") for i in range(k)]
    Bv = [z3.Int(f"b{i}") for i in range(k)]
    if raw_parsed is not None:
        Av = [z3.IntVal(a if a is not None else 0) for a, _ in raw_parsed]
        Bv = [z3.IntVal(b if b is not None else 0) for _, b in raw_parsed]
    eng.solver.add(*[a >= 0 for a in Av], *[b >= 0 for b in Bv])
    if fam == "framing":
        eng.solver.add(*[a < 10 ** job["D"] for a in Av], *[b < 10 ** job["D"] for b in Bv])
    specs = [(C3._D(f[0] == "a", SInt(a)), C3._D(f[1] == "b", SInt(b))) for f, a, b in zip(forms or [], Av, Bv)]
    specs_sym = list(zip(forms or [], Av, Bv))
    # unwinding assumption: every chunk loop runs <= K times; the range shim ASSERTS it (UnwindExceeded otherwise)
    eng.solver.add(size_v <= K * chunk_v)
    shims, osh = install_shims(size, specs, K)
    range_hdr = "bytes=x" if forms else job.get("raw_range")
    if raw_parsed is not None:
        from engine.reshim import ReShim
        from engine.shims import int_shim
        shims.add(R, re=ReShim, int=int_shim)
        range_hdr = job["raw_text"]
    ifk = job["if_range"]

    def fn():
        cur().path_notes["size"] = size
        st = Stat(size)
        mtime = job.get("mtime_ns", int(MTIME) * 10 ** 9) / 1e9
        st.st_mtime = st.st_ctime = mtime
        if_range = None
        if ifk == "etag":
            if_range = '"' + R.FileResponseMixin.generate_etag(st) + '"'
        elif ifk == "lastmod":
            if_range = formatdate(mtime, usegmt=True)  # exactly what the response announces as Last-Modified
        elif ifk == "weak":
            if_range = 'W/"' + R.FileResponseMixin.generate_etag(st) + '"'
        elif ifk == "unquoted":
            if_range = R.FileResponseMixin.generate_etag(st)
        elif ifk == "stock-etag":  # the tag the stock class would send: not a current validator of a subclass with its own tags
            if_range = '"' + R.FileResponseMixin.generate_etag(st) + '"'
        elif ifk is not None:
            if_range = IF_RANGE_TEXT[ifk]
        if job.get("subclass"):
            Cls = response_class(job["iface"], True)
            if ifk == "etag":
                if_range = '"' + Cls.generate_etag(st) + '"'
            resp = Cls("/d/file.bin", content_type=job["ctype"], stat_result=st, chunk_size=chunk)
            return run_response(job["iface"], job["method"], size, chunk, range_hdr, if_range, job["ctype"], K, resp=resp)
        if job.get("reuse"):
            # the same response object answered a (possibly multi-range) request before; now a plain request
            return run_response(job["iface"], job["method"], size, chunk, None, None, job["ctype"], K, earlier=range_hdr)
        return run_response(job["iface"], job["method"], size, chunk, range_hdr, if_range, job["ctype"], K, mtime=mtime)

    def on_path(e, r):
        kind, v = r
        klass = detail = None
        outcome = None
        if twin:
            klass = "twin-assert-false"
            e.check()
        elif kind == "exc":
            klass, detail = f"exception:{type(v).__name__}", repr(v)
            e.check()
        else:
            try:
                outcome = check_path(e, job, v, size, specs_sym, True)
            except Fail as f:
                klass, detail = f.klass, f.detail
                if klass.endswith(("-not-a-number", "-shape", "-count", "-syntax")) or "should-be" in klass or klass in (
                        "non-str-header", "data-outside-part", "stray-newline", "part-without-data", "unexpected-literal-bytes",
                        "file-data-on-error-response", "head-with-file-data", "content-range-on-200", "content-range-on-multipart",
                        "multipart-final-boundary", "multipart-with-one-part", "multipart-boundary-param", "416-without-content-range",
                        "zero-copy-multiple-messages-per-range", "zero-copy-missing-offset-count", "content-type-not-the-files"):
                    e.check()
        if klass is None:
            e.check()
        m = e.solver.model()
        sz = m.eval(size_v, True).as_long()
        ch = m.eval(chunk_v, True).as_long()
        hdr_txt = job["raw_text"] if raw_parsed is not None else C3.header_of(forms, [m.eval(a, True).as_long() for a in Av], [m.eval(b, True).as_long() for b in Bv]) if forms else job.get("raw_range")
        wit = {"iface": job["iface"], "method": job["method"], "size": sz, "chunk_size": ch, "range": hdr_txt, "if_range": ifk, "content_type": job["ctype"], "reuse": bool(job.get("reuse")), "subclass": bool(job.get("subclass")), "mtime_ns": job.get("mtime_ns")}
        small = sz <= 200000
        if klass is not None:
            reproduced: Optional[bool] = None
            cp = None
            if small:
                with shims.off():
                    cp = concrete_problem(job["iface"], job["method"], sz, ch, hdr_txt, ifk_concrete(ifk), job["ctype"], bool(job.get("reuse")), bool(job.get("subclass")), job.get("mtime_ns"))
                reproduced = cp is not None
            if twin:
                reproduced = True
            res.violation(f"C02/{job['iface']}/{klass.split(':')[0]}", wit, f"{klass} {detail or ''}; concrete: {cp}", reproduced)
            return
        res.kind(outcome)
        if small and (res["validated"] < 40 or res["paths"] % 7 == 0):
            with shims.off():
                cp = concrete_problem(job["iface"], job["method"], sz, ch, hdr_txt, ifk_concrete(ifk), job["ctype"], bool(job.get("reuse")), bool(job.get("subclass")), job.get("mtime_ns"))
            if cp is not None:
                res["harness_errors"].append(f"path holds symbolically but the real code fails concretely: {wit} -> {cp}")
            res["validated"] += 1
        res.sample(dict(wit, outcome=outcome), limit=2)

    with shims:
        eng.explore(fn, on_path)
    res.absorb_engine(eng)
    return res


def ifk_concrete(ifk):
    return ifk


def jobs(tier: str):
    thorough = tier == "thorough"
    out = []
    K = 4 if thorough else 3
    ifaces = ["wsgi", "asgi", "asgi-zc"]
    forms_sets: List[Optional[List[str]]] = [None]
    for k in range(1, (3 if thorough else 2) + 1):
        forms_sets += [list(f) for f in itertools.product(C3.FORMS, repeat=k)]
    for iface in ifaces:
        for method in ("GET", "HEAD"):
            for forms in forms_sets:
                k = len(forms) if forms else 0
                if method == "HEAD" and k > 2:
                    continue
                for ifk in IF_RANGE_KINDS:
                    if ifk not in (None, "etag") and k > 1:
                        continue
                    if ifk not in (None, "etag", "other") and iface == "asgi-zc":
                        continue
                    name = f"data/{iface}/{method}/{','.join(forms) if forms else 'norange'}/if-{ifk}"
                    out.append(dict(name=name, family="data", iface=iface, method=method, forms=forms, if_range=ifk,
                                    ctype="text/plain", K=K, weight=(9 ** k) * (3 if iface == "asgi" else 1)))
        # octet-stream adds content-disposition (download name) to the framing
        # header text through the real regex: 20-digit numbers (beyond every machine word) and zero-padded ones
        for ti, text in enumerate(["bytes=10000000000000000000-", "bytes=30000000000000000002-5", "bytes=0-1, 10000000000000000004-",
                                   "bytes=00000000000000000000002-5", "bytes=-00000000000000000000003"]):
            out.append(dict(name=f"data/{iface}/GET/rawtext{ti}", family="data", iface=iface, method="GET", forms=["ab"], raw_text=text, if_range=None,
                            ctype="text/plain", K=K, weight=20))
        # modification times with a fraction: the Last-Modified the response announces and the date If-Range is compared with are the same text
        for tag, ns in (("frac-.9999997", 1700000000_999999700), ("frac-.5", 1700000000_500000000), ("frac-.000001", 1700000000_000001000)):
            for ifk in ("lastmod", "etag"):
                out.append(dict(name=f"data/{iface}/GET/ab/mtime-{tag}/if-{ifk}", family="data", iface=iface, method="GET", forms=["ab"], if_range=ifk,
                                ctype="text/plain", K=K, mtime_ns=ns, weight=30))
        # a subclass with its own ETag scheme: If-Range is judged against the tag the response really sends
        for ifk in ("etag", "stock-etag", None):
            out.append(dict(name=f"data/{iface}/GET/ab/subclass-etag/if-{ifk}", family="data", iface=iface, method="GET", forms=["ab"], if_range=ifk,
                            ctype="text/plain", K=K, subclass=True, weight=30))
        # one FileResponse object mounted as an application: a plain request after it answered a (multi-)range request
        for method in ("GET", "HEAD"):
            for forms in (["ab", "ab"], ["a-", "-b"], ["ab"]):
                out.append(dict(name=f"data/{iface}/{method}/norange-after:{','.join(forms)}", family="data", iface=iface, method=method, forms=forms, if_range=None,
                                ctype="text/plain", K=K, reuse=True, weight=90))
        out.append(dict(name=f"data/{iface}/GET/ab/octet", family="data", iface=iface, method="GET", forms=["ab"], if_range=None,
                        ctype="application/octet-stream", K=K))
    # framing family: digit-exact multipart Content-Length
    D2 = 6 if thorough else 4
    for iface in ifaces:
        for method in ("GET", "HEAD"):
            for forms in itertools.product(C3.FORMS, repeat=2):
                out.append(dict(name=f"framing/{iface}/{method}/{','.join(forms)}/D{D2}", family="framing", iface=iface, method=method,
                                forms=list(forms), if_range=None, ctype="text/plain", K=1, D=D2, weight=200))
            if thorough:
                for forms in itertools.product(C3.FORMS, repeat=3):
                    out.append(dict(name=f"framing/{iface}/{method}/{','.join(forms)}/D3", family="framing", iface=iface, method=method,
                                    forms=list(forms), if_range=None, ctype="text/plain", K=1, D=3, weight=400, budget=3600))
    # content_type is a constructor argument: a Latin-1 (non-ASCII) parameter in it is part of every multipart part header
    for iface in ifaces:
        for method in ("GET", "HEAD"):
            out.append(dict(name=f"framing/{iface}/{method}/ab,ab/D3/content-type-latin1", family="framing", iface=iface, method=method,
                            forms=["ab", "ab"], if_range=None, ctype='text/plain; title="r\xe9sum\xe9 \xa7"', K=1, D=3, weight=200))
    out.append(dict(name="twin/data/wsgi", family="data", iface="wsgi", method="GET", forms=["ab"], if_range=None, ctype="text/plain", K=2, twin=True))
    out.append(dict(name="twin/framing/asgi", family="framing", iface="asgi", method="GET", forms=["ab", "ab"], if_range=None, ctype="text/plain", K=1, D=2, twin=True))
    return out


def replay(rec) -> int:
    w = rec["witness"]
    cp = concrete_problem(w["iface"], w["method"], w["size"], w["chunk_size"], w["range"], ifk_concrete(w["if_range"]), w["content_type"], bool(w.get("reuse")), bool(w.get("subclass")), w.get("mtime_ns"))
    print(f"replay C02: {w} -> {cp}")
    return 1 if cp else 0
