"""Pure-Python posixpath (the algorithms of CPython's Lib/posixpath.py; 3.12's normpath is C) written so that it runs
unchanged on real str and on SStr proxies.  Injected as `os.path` into baize.staticfiles; on every path the harness
re-runs the unshimmed code (real os.path) on the model and compares, so this file is validated, not trusted."""
from __future__ import annotations

sep = "/"
curdir = "."
pardir = ".."
CWD = "/srv"


def isabs(s):
    return s.startswith(sep)


def join(a, *p):
    path = a
    for b in p:
        if b.startswith(sep):
            path = b
        elif not path or path.endswith(sep):
            path = path + b
        else:
            path = path + sep + b
    return path


def normpath(path):
    if path == "":
        return curdir
    initial_slashes = 1 if path.startswith(sep) else 0
    if initial_slashes and path.startswith(sep * 2) and not path.startswith(sep * 3):
        initial_slashes = 2
    comps = path.split(sep)
    new_comps = []
    for comp in comps:
        if comp == "" or comp == curdir:
            continue
        if comp != pardir or (not initial_slashes and not new_comps) or (new_comps and new_comps[-1] == pardir):
            new_comps.append(comp)
        elif new_comps:
            new_comps.pop()
    out = None
    for c in new_comps:
        out = c if out is None else out + sep + c
    out = "" if out is None else out
    if initial_slashes:
        out = sep * initial_slashes + out
    return out if len(out) else curdir


def abspath(path):
    if not isabs(path):
        path = join(CWD, path)
    return normpath(path)


def _segments(p):
    return [x for x in abspath(p).split(sep) if len(x)]


def relpath(path, start=None):
    if not len(path):
        raise ValueError("no path specified")
    start_list = _segments(curdir if start is None else start)
    path_list = _segments(path)
    i = 0
    while i < len(start_list) and i < len(path_list) and start_list[i] == path_list[i]:
        i += 1
    rel_list = [pardir] * (len(start_list) - i) + path_list[i:]
    if not rel_list:
        return curdir
    return join(*rel_list)


def commonprefix(m):
    """character-wise common prefix (as os.path.commonprefix)"""
    if not m:
        return ""
    a, b = m[0], m[1]
    n = 0
    while n < len(a) and n < len(b) and a[n] == b[n]:
        n += 1
    return a[:n]


def commonpath(paths):
    segs = [[x for x in p.split(sep) if len(x) and x != curdir] for p in paths]
    a, b = segs[0], segs[1]
    i = 0
    while i < len(a) and i < len(b) and a[i] == b[i]:
        i += 1
    out = sep if paths[0].startswith(sep) else ""
    first = True
    for c in a[:i]:
        out = out + (c if first else sep + c)
        first = False
    return out


def basename(p):
    i = p.rfind(sep) + 1
    return p[i:]


def dirname(p):
    i = p.rfind(sep) + 1
    head = p[:i]
    if len(head) and head != sep * len(head):
        head = head.rstrip(sep)
    return head


def isdir(p):
    raise NotImplementedError


def split(p):
    i = p.rfind(sep) + 1
    head, tail = p[:i], p[i:]
    if len(head) and head != sep * len(head):
        head = head.rstrip(sep)
    return head, tail


# symbolic links of the virtual tree: absolute link path -> absolute (already physical) target; filled in by the harness
SYMLINKS = {}


def realpath(filename, *, strict=False):
    """posixpath.realpath over the virtual tree: components are resolved left to right, '..' pops the PHYSICAL parent"""
    if not isabs(filename):
        filename = join(CWD, filename)
    comps = []
    for comp in filename.split(sep):
        if comp == "" or comp == curdir:
            continue
        if comp == pardir:
            if comps:
                comps.pop()
            continue
        comps.append(comp)
        for link, target in SYMLINKS.items():
            lk = [x for x in link.split(sep) if x]
            if len(lk) == len(comps) and all(a == b for a, b in zip(comps, lk)):
                comps = [x for x in target.split(sep) if x]
                break
    out = ""
    for c in comps:
        out = out + sep + c
    return out if comps else sep


def islink(path):
    return any(path == link for link in SYMLINKS)
