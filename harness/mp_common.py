"""Shared multipart machinery for C01 / C15: form templates, encoding, chunkings, the five
entry points (event decoder, parse_stream, parse_async_stream, WSGI Request.form, ASGI
Request.form), the shims that let the real code run on symbolic bytes, and the concrete
(unshimmed) runner used for per-path validation and replay."""
from __future__ import annotations

import io
from typing import Any, Dict, List, Optional, Tuple

import baize.asgi.requests as AR
import baize.multipart as M
import baize.multipart_helper as MH
import baize.wsgi.requests as WR
from baize.datastructures import Headers, UploadFile
from baize.exceptions import HTTPException

from engine.forksym import SInt
from engine.reshim import ReShim, wrap_pattern
from engine.shims import Shims, bytearray_shim, bytes_shim
from engine.symseq import SBytes, SStr, _items_of
from engine.vloop import drive

ENTRIES = ["decoder", "parse_stream", "parse_async_stream", "wsgi_form", "asgi_form"]


class Sink:
    """file_factory stand-in: accumulates written items (symbolic or not)."""

    def __init__(self, filename, headers):
        self.filename = filename
        self.headers = headers
        self.items: List[Any] = []
        self.seeks: List[int] = []
        self.writes = 0

    def write(self, data):
        self.items.extend(_items_of(data))
        self.writes += 1

    def seek(self, off):
        self.seeks.append(off)

    async def awrite(self, data):
        self.write(data)

    async def aseek(self, off):
        self.seek(off)

    def close(self):
        pass

    async def aclose(self):
        pass


class LenSink(Sink):
    """a caller-supplied file_factory whose instances are FALSY while empty (it defines __len__, like a list / bytearray based sink)"""

    def __len__(self):
        return len(self.items)


def make_shims() -> Shims:
    s = Shims()
    s.add(M, re=ReShim, bytes=bytes_shim, bytearray=bytearray_shim,
          BLANK_LINE_RE=wrap_pattern(M.BLANK_LINE_RE),
          LINE_BREAK_RE=wrap_pattern(M.LINE_BREAK_RE),
          HEADER_CONTINUATION_RE=wrap_pattern(M.HEADER_CONTINUATION_RE))
    s.add(MH, bytearray=bytearray_shim)
    s.add(WR, UploadFile=Sink)
    s.add(AR, UploadFile=Sink)
    return s


STUBS = [
    "baize.multipart.re -> ReShim (interprets the decoder's real pattern text over symbolic bytes)",
    "baize.multipart.bytes / bytearray, baize.multipart_helper.bytearray -> symbolic byte-sequence stand-ins",
    "baize.multipart.BLANK_LINE_RE / LINE_BREAK_RE / HEADER_CONTINUATION_RE -> same patterns re-compiled through ReShim",
    "file_factory / baize.{wsgi,asgi}.requests.UploadFile -> accumulating Sink (the real UploadFile is exercised in the "
    "concrete replay of every path)",
    "wsgi.input -> scripted reader handing out the enumerated chunks; ASGI receive -> scripted http.request messages",
]


# ------------------------------------------------------------------ forms
class Part:
    eq = b"="  # how the Content-Disposition parameters spell their '=' (RFC 2045 allows linear white space around it)

    def __init__(self, kind: str, name: str, content: List[Any], filename: Optional[str] = None,
                 extra: Tuple[Tuple[str, str], ...] = ()):
        self.kind, self.name, self.content, self.filename, self.extra = kind, name, content, filename, extra

    def header_bytes(self) -> bytes:
        cd = f'form-data; name="{self.name}"'
        if self.kind == "file":
            cd += f'; filename="{self.filename}"'
        lines = [f"Content-Disposition: {cd}"]
        for k, v in self.extra:
            lines.append(f"{k}: {v}")
        return ("\r\n".join(lines)).encode("utf-8").replace(b'name="', b"name" + self.eq + b'"')


def encode_form(parts: List[Part], boundary: bytes, preamble: bytes = b"", epilogue: bytes = b"", lb: bytes = b"\r\n", pad: bytes = b"",
                eq: bytes = b"=") -> List[Any]:
    """Items (ints / SInt) of the encoded body. lb: the line break used for the framing (RFC: CRLF; the decoder also
    tolerates bare LF / bare CR)."""
    out: List[Any] = list(preamble)
    if preamble:
        out += list(lb)
    for p in parts:
        # pad: RFC 2046 transport padding (blanks between the boundary and its line break)
        # eq: how the Content-Disposition parameters spell their '=' (RFC 2045 tokens may be separated by linear white space: `filename = "x"`)
        if eq != b"=":
            p.eq = eq
        hb = p.header_bytes().replace(b"\r\n", lb)
        out += list(b"--" + boundary + pad + lb + hb + lb + lb)
        out += list(p.content)
        out += list(lb)
    out += list(b"--" + boundary + b"--" + pad + lb + epilogue)
    return out


def expected(parts: List[Part]):
    exp = []
    for p in parts:
        if p.kind == "field":
            exp.append(("field", p.name, list(p.content)))
        else:
            hdrs = {"content-disposition": p.header_bytes().decode("utf-8").split("\r\n")[0].split(": ", 1)[1]}
            for k, v in p.extra:
                hdrs[k.lower()] = v
            exp.append(("file", p.name, p.filename, hdrs, list(p.content)))
    return exp


def chunkings(n: int, mode: str, focus: Optional[List[int]] = None) -> List[List[int]]:
    """Cut-position lists for a body of n bytes. focus: indexes of interest (symbolic bytes + delimiters)."""
    out: List[List[int]] = [[]]
    if mode == "whole":
        return out
    pts = range(1, n) if focus is None else [i for i in range(1, n) if any(abs(i - f) <= 12 for f in focus)]
    pts = list(pts)
    if mode in ("cut1", "cut2", "all"):
        out += [[i] for i in pts]
    if mode in ("cut2", "all"):
        near = pts if focus is None else [i for i in pts if any(abs(i - f) <= 4 for f in focus)]
        out += [[i, j] for a, i in enumerate(near) for j in near[a + 1:]]
    if mode in ("bytewise", "all", "cut1", "cut2"):
        out.append(list(range(1, n)))
    return out


def split(items: List[Any], cuts: List[int], empty_chunks: bool = False) -> List[Any]:
    bounds = [0, *cuts, len(items)]
    chunks = []
    for a, b in zip(bounds, bounds[1:]):
        if empty_chunks:
            chunks.append([])
        chunks.append(items[a:b])
    if empty_chunks:
        chunks.append([])
    return chunks


def mk_chunk(items: List[Any]):
    if all(not isinstance(i, SInt) for i in items):
        return bytes(items)
    return SBytes(items)


# ------------------------------------------------------------------ running an entry point
def run_entry(entry: str, chunks: List[Any], boundary: bytes, charset: str = "utf8", factory=Sink,
              limits: Optional[Dict[str, Any]] = None, observe=None):
    """Run one entry point of the real code on the given chunk objects. Returns the normalised
    result list: ('field', name, items) / ('file', name, filename, headers dict, items)."""
    limits = limits or {}
    if entry == "decoder":
        d = M.MultipartDecoder(boundary, charset)
        evs = []
        fed = list(chunks) + [None]
        done = False
        for c in fed:
            d.receive_data(c)
            if observe:
                observe(d, c)
            while True:
                ev = d.next_event()
                if isinstance(ev, M.NeedData):
                    break
                evs.append(ev)
                if isinstance(ev, M.Epilogue):
                    done = True
                    break
            if done:
                break
        return norm_events(evs)
    if entry == "parse_stream":
        items = MH.parse_stream(iter(chunks), boundary, charset, file_factory=factory, **limits)
        return norm_items(items)
    if entry == "parse_async_stream":
        async def agen():
            for c in chunks:
                yield c
        items = drive(MH.parse_async_stream(agen(), boundary, charset, file_factory=factory, **limits))
        return norm_items(items)
    ctype = f'multipart/form-data; boundary="{boundary.decode("latin-1")}"'
    if entry == "wsgi_form":
        class Inp:
            def __init__(self):
                self.q = [c for c in chunks if len(c)]
                self.reads = 0

            def read(self, n=-1):
                self.reads += 1
                return self.q.pop(0) if self.q else b""
        env = {"REQUEST_METHOD": "POST", "CONTENT_TYPE": ctype, "wsgi.input": Inp(), "QUERY_STRING": "",
               "SERVER_NAME": "h", "SERVER_PORT": "80", "wsgi.url_scheme": "http", "PATH_INFO": "/"}
        req = WR.Request(env)
        form = req.form
        return norm_items(form.multi_items())
    if entry == "asgi_form":
        msgs = [{"type": "http.request", "body": c, "more_body": True} for c in chunks]
        msgs.append({"type": "http.request", "body": b"", "more_body": False})
        it = iter(msgs)

        async def receive():
            return next(it)

        async def go():
            req = AR.Request({"type": "http", "method": "POST", "headers": [(b"content-type", ctype.encode("latin-1"))],
                              "path": "/", "query_string": b""}, receive)
            coro = AR.Request.form.func(req)  # the real accessor body, without ensure_future (no loop needed)
            return await coro
        form = drive(go())
        return norm_items(form.multi_items())
    raise ValueError(entry)


def _hdrs(h: Headers) -> Dict[str, str]:
    return dict(h.items())


def _content_items(x) -> List[Any]:
    if isinstance(x, Sink):
        return list(x.items)
    if isinstance(x, UploadFile):
        x.seek(0)
        return list(x.read())
    its = _items_of(x)
    if its is None:
        raise TypeError(type(x))
    return its


def norm_items(items):
    out = []
    for name, v in items:
        if isinstance(v, (Sink, UploadFile)):
            out.append(("file", name, v.filename, _hdrs(v.headers), _content_items(v)))
        else:
            out.append(("field", name, _content_items(v)))
    return out


def norm_events(evs):
    """Event list -> same normal form (plus structural sanity of the event sequence)."""
    out = []
    cur = None
    if not evs or not isinstance(evs[0], M.Preamble):
        raise AssertionError("event sequence does not start with Preamble")
    if not isinstance(evs[-1], M.Epilogue):
        raise AssertionError("event sequence does not end with Epilogue")
    for ev in evs[1:-1]:
        if isinstance(ev, M.Field):
            assert cur is None, "Field before previous part finished"
            cur = ["field", ev.name, []]
        elif isinstance(ev, M.File):
            assert cur is None, "File before previous part finished"
            cur = ["file", ev.name, ev.filename, _hdrs(ev.headers), []]
        elif isinstance(ev, M.Data):
            assert cur is not None, "Data outside a part"
            cur[-1].extend(_items_of(ev.data))
            if not ev.more_data:
                out.append(tuple(cur))
                cur = None
        else:
            raise AssertionError(f"unexpected event {ev!r}")
    assert cur is None, "part not terminated"
    return out


def run_concrete(entry: str, body: bytes, cuts: List[int], boundary: bytes, empty_chunks=False, limits=None, factory=None):
    """Unshimmed real code (real UploadFile, real re) on a concrete body. Returns normal form
    with contents as bytes, or ('exc', type name, status)."""
    chunks = [bytes(c) for c in split(list(body), cuts, empty_chunks)]
    try:
        r = run_entry(entry, chunks, boundary, factory=factory or UploadFile, limits=limits)
    except HTTPException as e:
        return ("exc", type(e).__name__, e.status_code)
    except Exception as e:  # noqa: BLE001
        return ("exc", type(e).__name__, None)
    out = []
    for t in r:
        if t[0] == "field":
            out.append(("field", t[1], "".join(map(chr, t[2]))))  # items of the decoded text
        else:
            out.append(("file", t[1], t[2], t[3], bytes(t[4])))
    return out
