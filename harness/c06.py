"""C06 -- streaming responses always terminate and release the producer.

Real code run (ASGI, on a virtual-time event loop whose timer ordering is decided by the solver):
StreamingResponse.__call__ / wait_close, StreamResponse.render_stream, SendEventResponse.render_stream
(relay task, queue hand-off, ping timeouts, cancellation), NextResponse (middleware relay);
(WSGI, sequential) StreamingResponse.__call__, StreamResponse.render_stream, NextResponse.

Symbolic: per-item producer delays, the send delay, the ping interval and the disconnect instant are
integer ticks (z3 Ints with stated upper bounds): "time becomes a symbolic variable", every ordering of
producer steps, sends, ping timeouts and the disconnect is a path.  Enumerated: response class, producer
length, whether/where the producer raises, whether the client ever disconnects, WSGI close point.

NOT covered (not applicable to this technique): the WSGI SendEventResponse relay, which hands items from
a real pool thread to the consumer through queue.Queue -- pre-emptive thread interleavings are not
values a solver can constrain.
"""
from __future__ import annotations

import asyncio
from typing import Any, Dict, List, Optional

import z3

import importlib

import baize.asgi.responses as AR
import baize.wsgi.responses as WR

AM = importlib.import_module("baize.asgi.middleware")  # the package re-exports a function of the same name
WM = importlib.import_module("baize.wsgi.middleware")

from engine import report
from engine.forksym import Engine, SInt, conc, cur, lift, term_of
from engine.vloop import DeadlockError, VLoop

PID = "C06"

META = {
    "functions": lambda: [AR.StreamingResponse.__call__, AR.StreamingResponse.wait_close, AR.StreamResponse.render_stream,
                          AR.SendEventResponse.render_stream, AR.SendEventResponse.__init__, AM.NextResponse.render_stream,
                          WR.StreamingResponse.__call__, WR.StreamResponse.render_stream, WM.NextResponse.render_stream],
    "engines": ["E-FS (forksym) on a virtual-time asyncio loop (engine/vloop.py): timers in asyncio's own heap, compared through the solver"],
    "stubs": ["event loop -> VLoop (BaseEventLoop subclass, fake selector, integer virtual clock, clock resolution 1 tick)",
              "ASGI receive/send -> coroutines sleeping symbolic tick counts", "user producer -> async generator sleeping symbolic ticks between items"],
    "assumptions": ["asyncio's own scheduling code (BaseEventLoop._run_once, Task, Queue, wait_for/timeouts) is executed for real; only the clock and "
                    "the selector are virtual", "delays are integers within the stated tick bounds", "the server's send() does not raise"],
    "bounds": {"quick": {"items_sse": 1, "items_stream": 2, "ticks": "producer/send delays 0..20, ping 1..20, disconnect 0..60"},
               "thorough": {"items_sse": 2, "items_stream": 3, "ticks": "producer/send delays 0..20, ping 1..20, disconnect 0..60"}},
    "outside": ["WSGI SendEventResponse (real threads + queue.Queue): not applicable, see MANIFEST/DESIGN", "more producer items than the bound "
                "(cost x30 per item)", "send() failures", "tick values beyond the bounds"],
    "expect_kinds": {"all": ["completed", "disconnected", "producer-raised", "wsgi-closed"]},
}


class Fail(Exception):
    def __init__(self, klass, detail=""):
        self.klass, self.detail = klass, detail


class Boom(Exception):
    """the producer's own exception"""


def now():
    return asyncio.get_running_loop().time()


# ------------------------------------------------------------------ ASGI scenario on the virtual loop
def asgi_scenario(job, V):
    """Build and run one ASGI streaming call on a fresh VLoop. V: dict of SInt ticks. Returns a log dict."""
    cls = job["cls"]
    n = job["items"]
    raise_at = job.get("raise_at")  # producer raises instead of yielding item k (k == n: raises at the end)
    never = job.get("never_disconnect", False)
    log: Dict[str, Any] = {"entered": False, "marks": 0, "sent": [], "yielded": [], "exc": None, "ret_at": None, "disc_at": None, "started_steps": [], "ahead": []}

    async def gen():
        log["entered"] = True
        try:
            for i in range(n + 1):
                d = V["pd"][min(i, len(V["pd"]) - 1)]
                log["started_steps"].append((i, now()))
                if not isinstance(d, int) or d > 0:
                    if d > 0:
                        await asyncio.sleep(d)
                if raise_at is not None and i == raise_at:
                    raise Boom(f"boom at {i}")
                if i == n:
                    return
                item = {"data": f"item{i}"} if cls == "sse" else b"chunk%d" % i
                if cls == "sse" and job.get("empty_event_at") == i:
                    item = {}  # a field-less event (the one the class docstring shows): an ordinary item, not the end of the stream
                log["yielded"].append((i, now()))
                log["ahead"].append(i + 1 - sum(1 for _, m_ in log["sent"] if m_.get("body") and not m_["body"].startswith(b":")))
                yield item
        finally:
            log["marks"] += 1

    async def receive():
        if never:
            await asyncio.get_running_loop().create_future()
        if log["disc_at"] is None:
            await asyncio.sleep(V["disc"])
            log["disc_at"] = now()
            return {"type": "http.disconnect"}
        await asyncio.get_running_loop().create_future()

    async def send(m):
        if V["sd"] > 0:
            await asyncio.sleep(V["sd"])
        log["sent"].append((now(), m))

    class Source:
        """a producer that is an async-iterator OBJECT with aclose() (a subscription, a channel's receive end) rather than a native generator"""

        def __init__(self, agen):
            self._g = agen

        def __aiter__(self):
            return self

        async def __anext__(self):
            return await self._g.__anext__()

        async def aclose(self):
            await self._g.aclose()

    async def app():
        g = gen()
        log["gen"] = g
        if job.get("producer") == "object":
            g = Source(g)
        if cls == "sse":
            r = AR.SendEventResponse(g, ping_interval=V["ping"])
        elif cls == "stream":
            r = AR.StreamResponse(g)
        else:
            r = AM.NextResponse(g, 200, {"content-type": "application/octet-stream"})
        scope = {"type": "http", "method": "GET", "headers": []}
        try:
            await r(scope, receive, send)
        except Boom as ex:
            log["exc"] = ex
        log["ret_at"] = now()
        for _ in range(4):  # let cleanup that is ALREADY scheduled run; nothing new is awaited
            await asyncio.sleep(0)
        me = asyncio.current_task()
        log["pending"] = [repr(t.get_coro()) for t in asyncio.all_tasks() if t is not me and not t.done()]
        return log

    loop = VLoop()
    try:
        return loop.run_until_complete(app())
    finally:
        # cancel leftovers so that closing the loop does not warn; they were recorded as pending above
        for t in asyncio.all_tasks(loop):
            t.cancel()
        try:
            loop.run_until_complete(asyncio.sleep(0))
        except BaseException:  # noqa: BLE001
            pass
        loop.close()


def check_asgi(e: Engine, job, V, log) -> str:
    cls, n = job["cls"], job["items"]
    sent = log["sent"]
    if not sent or sent[0][1]["type"] != "http.response.start":
        raise Fail("no-start-event")
    bodies = sent[1:]
    for t, m in bodies:
        if m["type"] != "http.response.body":
            raise Fail("unexpected-event-type", m["type"])
    raised = log["exc"] is not None
    if job.get("raise_at") is None and raised:
        raise Fail("spurious-exception", repr(log["exc"]))
    # exactly one final body, at the very end, unless the producer's exception propagated
    finals = [i for i, (t, m) in enumerate(bodies) if not m.get("more_body", False)]
    if raised:
        if finals:
            raise Fail("final-body-although-producer-raised")
    else:
        if finals != [len(bodies) - 1]:
            raise Fail("final-body-event", f"final flags at {finals} of {len(bodies)}")
    # delivered data is an in-order duplicate-free prefix of what was yielded
    data = [m["body"] for t, m in bodies if m.get("body") and not m["body"].startswith(b":")]
    exp = [(f"data: item{i}\n\n".encode() if cls == "sse" else b"chunk%d" % i) for i in range(n)]
    if cls == "sse" and job.get("empty_event_at") is not None:
        exp[job["empty_event_at"]] = b"\n"
    if data != exp[:len(data)]:
        raise Fail("delivered-not-a-prefix-of-yielded", f"{data} vs {exp}")
    if len(data) > len(log["yielded"]):
        raise Fail("delivered-more-than-yielded")
    # pacing: the hand-off between producer and client is bounded (one queued, one in the relay's hands, one being sent), so the producer is never
    # more than 3 items ahead of what the client got -- the finite stand-in for "an endless producer that never waits cannot keep the
    # disconnect from being seen" (with an unbounded hand-off it would run to its end, or forever, before the first byte is sent)
    if log["ahead"] and max(log["ahead"]) > 3:
        raise Fail("producer-not-paced-by-the-client", f"the producer was {max(log['ahead'])} items ahead of the client")
    # the producer's cleanup ran exactly once, nothing left pending
    if log["marks"] != (1 if log["entered"] else 0):
        raise Fail("producer-cleanup-count", f"finally ran {log['marks']} times although the producer "
                   f"{'had started' if log['entered'] else 'never started'} (generator state: "
                   f"{'closed' if log['gen'].ag_frame is None else 'suspended'})")
    if log["pending"]:
        raise Fail("task-left-pending", "; ".join(log["pending"])[:300])
    ret = term_of(log["ret_at"])
    sd = term_of(V["sd"])
    if log["disc_at"] is not None and not raised:
        disc = term_of(log["disc_at"])
        if cls == "sse":
            bound = term_of(V["ping"]) + 2 * sd + 2
        else:
            bound = z3.IntVal(0)
            for p in V["pd"]:
                bound = z3.If(term_of(p) > bound, term_of(p), bound)
            bound = bound + 2 * sd + 2
        if e.check(z3.And(ret > disc, ret - disc > bound)):
            raise Fail("late-return-after-disconnect", "call returned later than the allowed bound after the disconnect")
    complete = len(data) == n and not raised
    if raised:
        if job.get("raise_at") is None or not isinstance(log["exc"], Boom):
            raise Fail("wrong-exception")
        return "producer-raised"
    if complete and (log["disc_at"] is None or True):
        # all items delivered: either finished normally or disconnected after the last one
        return "completed" if log["disc_at"] is None or len(data) == n else "disconnected"
    if log["disc_at"] is None:
        if job.get("raise_at") is not None:
            raise Fail("producer-exception-swallowed")
        raise Fail("stopped-early-without-disconnect", f"{len(data)} of {n} delivered")
    return "disconnected"


def sym_vars(job, eng: Engine):
    n = job["items"]
    if job.get("fast_producer"):
        pds = [0] * (n + 1)  # recipe: producer never waits (at least as fast as the client)
    else:
        pds = [SInt(z3.Int(f"p{i}")) for i in range(n)] + [SInt(z3.Int(f"p{n}")) if job.get("tail_delay") else 0]
    V = {"pd": pds, "sd": SInt(z3.Int("sd")), "ping": SInt(z3.Int("ping")), "disc": SInt(z3.Int("disc"))}
    for p in V["pd"]:
        if isinstance(p, SInt):
            eng.solver.add(p.e >= 0, p.e <= 20)
    eng.solver.add(V["sd"].e >= 0, V["sd"].e <= 20, V["ping"].e >= 1, V["ping"].e <= 20, V["disc"].e >= 0, V["disc"].e <= 60)
    return V


def conc_vars(V, m):
    return {"pd": [m.eval(p.e, True).as_long() if isinstance(p, SInt) else p for p in V["pd"]], "sd": m.eval(V["sd"].e, True).as_long(),
            "ping": m.eval(V["ping"].e, True).as_long(), "disc": m.eval(V["disc"].e, True).as_long()}


def concrete_asgi(job, cv) -> Optional[str]:
    """Same scenario with concrete integer ticks on the same virtual loop, no engine."""
    prev = Engine.cur
    Engine.cur = None
    try:
        log = asgi_scenario(job, cv)

        class _E:
            def check(self, *a):
                import z3 as _z
                s = _z.Solver()
                s.add(*a)
                return s.check() == _z.sat
        check_asgi(_E(), job, cv, log)
    except Fail as f:
        return f"{f.klass}: {f.detail}"
    except DeadlockError as ex:
        return f"deadlock: {ex}"
    except Exception as ex:  # noqa: BLE001
        return f"exception {type(ex).__name__}: {ex}"
    finally:
        Engine.cur = prev
    return None


def job_asgi(job) -> report.JobResult:
    import sys
    sys.unraisablehook = lambda *a: None  # coroutines of aborted (pruned / cut) paths are garbage-collected mid-await: noise only
    res = report.JobResult.new(job["name"])
    twin = job.get("twin", False)
    eng = Engine(budget_s=job.get("budget", 3000))
    V = sym_vars(job, eng)

    def fn():
        return asgi_scenario(job, V)

    def on_path(e, r):
        kind, v = r
        klass = detail = None
        outcome = None
        try:
            if kind == "exc":
                if isinstance(v, DeadlockError):
                    raise Fail("deadlock", str(v))
                raise Fail(f"exception:{type(v).__name__}", repr(v))
            if twin:
                raise Fail("twin-assert-false")
            outcome = check_asgi(e, job, V, v)
        except Fail as f:
            klass, detail = f.klass, f.detail
        if klass != "late-return-after-disconnect":
            e.last_sat = False
        m = e.witness()
        cv = conc_vars(V, m)
        wit = {"class": job["cls"], "items": job["items"], "raise_at": job.get("raise_at"), "never_disconnect": job.get("never_disconnect", False), **cv}
        if klass is not None:
            cp = concrete_asgi(job, cv)
            res.violation(f"C06/asgi-{job['cls']}/{klass.split(':')[0]}", wit, f"{klass} {detail}; concrete: {cp}", (cp is not None) or twin)
            return
        res.kind(outcome)
        if res["validated"] < 60 or e.paths % 25 == 0:
            cp = concrete_asgi(job, cv)
            if cp is not None:
                res["harness_errors"].append(f"symbolic schedule holds but its concrete instance fails: {wit}: {cp}")
            res["validated"] += 1
        res.sample(wit, limit=1)

    eng.explore(fn, on_path, prefix=job.get("prefix"))
    res.absorb_engine(eng)
    return res


# ------------------------------------------------------------------ WSGI sequential streaming
def job_wsgi(job) -> report.JobResult:
    """StreamResponse / NextResponse on WSGI: the server iterates and closes the iterable at a symbolic point."""
    res = report.JobResult.new(job["name"])
    twin = job.get("twin", False)
    eng = Engine()
    n = job["items"]
    cls = job["cls"]
    close_v = z3.Int("close_after")
    raise_v = z3.Int("raise_at")
    eng.solver.add(close_v >= 0, close_v <= n + 1, raise_v >= 0, raise_v <= n + 1)

    def scenario(close_after, raise_at):
        log = {"marks": 0, "yielded": 0, "entered": False}

        def gen():
            log["entered"] = True
            try:
                for i in range(n):
                    if raise_at == i:
                        raise Boom(f"boom at {i}")
                    log["yielded"] += 1
                    yield b"chunk%d" % i
                if raise_at == n:
                    raise Boom("boom at end")
            finally:
                log["marks"] += 1
        g = gen()
        r = WR.StreamResponse(g) if cls == "stream" else WM.NextResponse(g, 200, {"content-type": "x/y"})
        calls = []
        it = r({"REQUEST_METHOD": "GET"}, lambda s, h, e=None: calls.append(s))
        got = []
        exc = None
        itr = iter(it)
        try:
            k = 0
            while True:
                if close_after == k:
                    break
                try:
                    got.append(next(itr))
                except StopIteration:
                    break
                k += 1
        except Boom as ex:
            exc = ex
        if hasattr(it, "close"):
            it.close()
        return log, calls, got, exc, g

    def verdict(log, calls, got, exc, g, close_after, raise_at):
        if got and len(calls) != 1:
            raise Fail("start_response-count", str(len(calls)))
        if got != [b"chunk%d" % i for i in range(len(got))]:
            raise Fail("delivered-not-a-prefix-of-yielded")
        if log["entered"] and g.gi_frame is not None:
            raise Fail("producer-not-closed", f"finally ran {log['marks']} times, generator still suspended")
        if log["marks"] != (1 if log["entered"] else 0):
            raise Fail("producer-cleanup-count", str(log["marks"]))
        if exc is not None and not isinstance(exc, Boom):
            raise Fail("wrong-exception")
        return "producer-raised" if exc is not None else "wsgi-closed"

    def fn():
        return scenario(SInt(close_v), SInt(raise_v))

    def on_path(e, r):
        kind, v = r
        m = e.model()
        ca, ra = m.eval(close_v, True).as_long(), m.eval(raise_v, True).as_long()
        wit = {"class": "wsgi-" + cls, "items": n, "close_after": ca, "raise_at": ra}
        try:
            if kind == "exc":
                raise Fail(f"exception:{type(v).__name__}", repr(v))
            if twin:
                raise Fail("twin-assert-false")
            outcome = verdict(*v, SInt(close_v), SInt(raise_v))
        except Fail as f:
            prev = Engine.cur
            Engine.cur = None
            try:
                verdict(*scenario(ca, ra), ca, ra)
                cp = None
            except Fail as f2:
                cp = f"{f2.klass}: {f2.detail}"
            except Exception as ex:  # noqa: BLE001
                cp = f"exception {type(ex).__name__}"
            finally:
                Engine.cur = prev
            res.violation(f"C06/wsgi-{cls}/{f.klass.split(':')[0]}", wit, f"{f.klass} {f.detail}; concrete: {cp}", (cp is not None) or twin)
            return
        res.kind(outcome)
        res["validated"] += 1
        res.sample(wit, limit=1)

    eng.explore(fn, on_path)
    res.absorb_engine(eng)
    return res


def _split(job, depth: int) -> List[Dict[str, Any]]:
    """split one heavy exploration by its feasible decision prefixes (one sub-job per prefix)"""
    import sys
    sys.unraisablehook = lambda *a: None
    eng = Engine()
    V = sym_vars(job, eng)
    pref = eng.prefixes(lambda: asgi_scenario(job, V), depth)
    out = []
    for i, p in enumerate(pref):
        out.append(dict(job, name=f"{job['name']}#{i}", prefix=p, weight=job.get("weight", 1)))
    return out


def jobs(tier: str):
    b = META["bounds"][tier]
    out: List[Dict[str, Any]] = []
    for cls, nmax in (("sse", b["items_sse"]), ("stream", b["items_stream"])):
        for n in range(0, nmax + 1):
            # the producer's delay after its last item: thorough only, and not together with 2 SSE items (that job alone ran past 50 minutes)
            base = dict(kind="asgi", cls=cls, items=n, tail_delay=(tier == "thorough" and not (cls == "sse" and n >= 2)))
            variants = [dict(base, name=f"asgi/{cls}/n{n}/disconnect"), dict(base, name=f"asgi/{cls}/n{n}/never", never_disconnect=True)]
            for k in range(0, n + 1):
                variants.append(dict(base, name=f"asgi/{cls}/n{n}/raise{k}", raise_at=k))
                variants.append(dict(base, name=f"asgi/{cls}/n{n}/raise{k}-never", raise_at=k, never_disconnect=True))
            for v in variants:
                heavy = (cls == "sse" and n >= 1) or (cls != "sse" and n >= 3)
                v["weight"] = 30 ** n if cls == "sse" else 6 ** n
                if heavy and not (v.get("never_disconnect") and n < 2):
                    out.extend(_split(v, 9 if n < 2 else 14))
                else:
                    out.append(v)
    # fast-producer recipe: one more item than the general bound, producer delays fixed to 0
    nf = b["items_sse"] + 2  # item0 in flight to the client, item1 parked in the queue, item2 blocked in put(): needs 3
    for extra in (dict(), dict(raise_at=nf)):
        v = dict(kind="asgi", cls="sse", items=nf, fast_producer=True, name=f"asgi/sse/n{nf}/fast-producer{'-raise' if extra else ''}", weight=400, **extra)
        out.extend(_split(v, 8))
    # the producer handed over as an iterator object with aclose()
    for cls, n in (("stream", 2), ("sse", 1)):
        v = dict(kind="asgi", cls=cls, items=n, producer="object", name=f"asgi/{cls}/n{n}/iterator-object-with-aclose/disconnect", weight=60)
        out.extend(_split(v, 9) if cls == "sse" else [v])
    # ... and with a producer that never waits: the relay is parked in the full hand-off queue when the client leaves, the iterator object is
    # suspended at its yield and only aclose() runs its cleanup
    v = dict(kind="asgi", cls="sse", items=3, fast_producer=True, producer="object", name="asgi/sse/n3/iterator-object-with-aclose/fast-producer", weight=300)
    out.extend(_split(v, 8))
    # a field-less event in the middle of the stream
    out.append(dict(kind="asgi", cls="sse", items=3, fast_producer=True, never_disconnect=True, empty_event_at=1, name="asgi/sse/n3/empty-event-in-the-middle", weight=100))
    # a long backlog produced without ever waiting (in-memory data): 8 items, the hand-off must pace the producer
    v = dict(kind="asgi", cls="sse", items=8, fast_producer=True, never_disconnect=True, name="asgi/sse/n8/fast-producer-backlog", weight=300)
    out.append(v)
    for cls in ("stream", "next"):
        for n in range(0, 4):
            out.append(dict(name=f"wsgi/{cls}/n{n}", kind="wsgi", cls=cls, items=n))
    out.append(dict(name="twin/asgi", kind="asgi", cls="stream", items=1, twin=True))
    out.append(dict(name="twin/wsgi", kind="wsgi", cls="stream", items=1, twin=True))
    return out


def run_job(job):
    return job_asgi(job) if job["kind"] == "asgi" else job_wsgi(job)


def replay(rec) -> int:
    w = rec["witness"]
    if str(w["class"]).startswith("wsgi"):
        print("replay C06 (wsgi): re-run ./check C06; witness:", w)
        return 1
    job = dict(cls=w["class"], items=w["items"], raise_at=w.get("raise_at"), never_disconnect=w.get("never_disconnect", False))
    cv = {"pd": w["pd"], "sd": w["sd"], "ping": w["ping"], "disc": w["disc"]}
    cp = concrete_asgi(job, cv)
    print(f"replay C06: {w} -> {cp}")
    return 1 if cp else 0
