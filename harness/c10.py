"""C10 -- the request body is read once, completely, and consistently cached.

Real code run: asgi.Request.stream/body/json/form/close + utils.cached_property (shared future), on the
virtual-time loop with concurrent awaiting tasks; wsgi.Request.stream/body/json/form/close.

Symbolic (solver-decided): number of server messages/chunks, WHICH messages are empty, the disconnect
position, per-receive delays and the start offsets of concurrently awaiting tasks (integer ticks), i.e. every
interleaving of the awaiters with the receive channel.  Enumerated: the access program (sequence over body /
stream / json / form / close and the set of concurrent tasks).  Body bytes are concrete order-revealing
markers: the code never inspects them (b"".join on a literal cannot be intercepted) -- structure is symbolic.
"""
from __future__ import annotations

import asyncio
import json as _json
from typing import Any, Dict, List, Optional

import z3

import baize.asgi.requests as AQ
import baize.utils as U
import baize.wsgi.requests as WQ
from baize.asgi.requests import ClientDisconnect
from baize.exceptions import HTTPException

from engine import report
from engine.forksym import Engine, SInt, conc, cur, term_of
from engine.vloop import DeadlockError, VLoop

PID = "C10"
N = 3  # max messages

META = {
    "functions": lambda: [AQ.Request.stream, AQ.Request.body, AQ.Request.json, AQ.Request.form, AQ.Request.close, U.cached_property.__get__,
                          WQ.Request.stream, WQ.Request.body, WQ.Request.json, WQ.Request.form, WQ.Request.close],
    "engines": ["E-FS (forksym) on the virtual-time asyncio loop for ASGI; plain forksym for WSGI"],
    "stubs": ["ASGI receive -> scripted coroutine: symbolic message count / emptiness / disconnect position / delay per call",
              "wsgi.input -> scripted reader: symbolic chunk count, counts reads", "event loop -> VLoop (virtual clock)"],
    "assumptions": ["chunk payloads are fixed markers (the accessors never branch on body bytes before the whole body is joined); "
                    "JSON / urlencoded programs use marker chunks that concatenate to a valid document",
                    "the server delivers at most one http.disconnect and legal more_body flags"],
    "bounds": {"quick": {"messages_max": 3, "concurrent_tasks_max": 2, "ticks": "delays 0..30"},
               "thorough": {"messages_max": 3, "concurrent_tasks_max": 3, "ticks": "delays 0..30"}},
    "outside": ["more than 3 body messages", "access programs outside the enumerated list", "multipart form bodies (C01/C15)"],
    "expect_kinds": {"all": ["complete", "disconnect", "wsgi"]},
}

JSON_CHUNKS = [b"[1", b",2", b",3]"]
FORM_CHUNKS = [b"a=1", b"&b=2", b"&a=3"]
RAW_CHUNKS = [b"A", b"B", b"C"]


class Fail(Exception):
    def __init__(self, klass, detail=""):
        self.klass, self.detail = klass, detail


def _mp_part(name: bytes, value: bytes) -> bytes:
    return b'--b\r\nContent-Disposition: form-data; name="' + name + b'"\r\n\r\n' + value + b"\r\n"


# a multipart body whose closing delimiter is NOT in the last message: the trailing CRLF / an empty final message still belong to the body
MULTIPART_CHUNKS = {1: [_mp_part(b"a", b"1") + _mp_part(b"b", b"2") + _mp_part(b"a", b"3") + b"--b--\r\n"],
                    2: [_mp_part(b"a", b"1") + _mp_part(b"b", b"2") + _mp_part(b"a", b"3") + b"--b--", b"\r\n"],
                    3: [_mp_part(b"a", b"1"), _mp_part(b"b", b"2") + _mp_part(b"a", b"3") + b"--b--\r\n", b""]}


def chunks_for(kind: str, n: int) -> List[bytes]:
    if kind == "multipart":
        return list(MULTIPART_CHUNKS[n])
    base = {"json": JSON_CHUNKS, "form": FORM_CHUNKS, "raw": RAW_CHUNKS}[kind]
    if n == len(base):
        return list(base)
    if kind == "json":
        return {1: [b"[1,2,3]"], 2: [b"[1", b",2,3]"]}[n]
    if kind == "form":
        return {1: [b"a=1&b=2&a=3"], 2: [b"a=1", b"&b=2&a=3"]}[n]
    return base[:n]


# ------------------------------------------------------------------ ASGI
async def _maybe_sleep(d):
    if isinstance(d, int):
        if d > 0:
            await asyncio.sleep(d)
    elif d > 0:
        await asyncio.sleep(d)


class _HalfTickAsyncio:
    """stands for the `asyncio` module inside baize.asgi.requests in the polling program: the virtual clock counts whole ticks, so a
    sub-tick timeout (is_disconnected polls with 1e-7 s) becomes ONE unit while every other delay of that scenario is doubled --
    the timeout then fires after everything that is ready and before anything that has to wait"""

    def __getattr__(self, k):
        return getattr(asyncio, k)

    @staticmethod
    def _t(timeout):
        return 1 if isinstance(timeout, float) and 0 < timeout < 1 else timeout

    def wait_for(self, fut, timeout=None):
        return asyncio.wait_for(fut, self._t(timeout))

    def wait(self, fs, *, timeout=None, return_when=asyncio.ALL_COMPLETED):
        return asyncio.wait(fs, timeout=self._t(timeout), return_when=return_when)


def asgi_scenario(job, V):
    if job["prog"] == "poll-disconnect+body" and not isinstance(AQ.asyncio, _HalfTickAsyncio):
        real = AQ.asyncio
        AQ.asyncio = _HalfTickAsyncio()
        try:
            return asgi_scenario(job, dict(V, d=[x * 2 for x in V["d"]], w=[x * 2 for x in V["w"]]))
        finally:
            AQ.asyncio = real
    return _asgi_scenario(job, V)


def _asgi_scenario(job, V):
    """V: nmsg (int), empty (list[bool]), disc (int: index of the receive() call that returns disconnect, N+1 = never),
    d (list of delays), w (list of task start offsets) -- ints or SInt (choices are made by the caller)."""
    prog = job["prog"]
    kind = job["payload"]
    nmsg, empties, disc = V["nmsg"], V["empty"], V["disc"]
    payload = chunks_for(kind, nmsg)
    wire = [b"" if empties[i] and kind == "raw" else payload[i] for i in range(nmsg)]
    log: Dict[str, Any] = {"receives": 0, "delivered": [], "wire": wire}
    ctype = {"json": b"application/json", "form": b"application/x-www-form-urlencoded", "raw": b"application/octet-stream",
             "multipart": b"multipart/form-data; boundary=b"}[kind]

    async def receive():
        # cancellation-safe like a server's queue: a receive() cancelled while waiting (asyncio.wait_for) has consumed nothing
        await _maybe_sleep(V["d"][min(log["receives"], len(V["d"]) - 1)])
        i = log["receives"]
        log["receives"] += 1
        if i == disc:
            log["delivered"].append("disconnect")
            return {"type": "http.disconnect"}
        j = i if i < disc else i - 1  # message index (a disconnect call consumed one slot)
        if j < nmsg:
            log["delivered"].append(j)
            msg = {"type": "http.request", "body": wire[j], "more_body": j < nmsg - 1}
            if job.get("omit_optional_keys"):  # ASGI: "body" defaults to b"", "more_body" to False -- servers may leave them out
                if msg["body"] == b"":
                    del msg["body"]
                if not msg["more_body"]:
                    del msg["more_body"]
            return msg
        log["delivered"].append("past-end")
        await asyncio.get_running_loop().create_future()  # a real server blocks here

    async def app():
        Req = AQ.Request
        if prog == "subclass-body-via-plain-method":
            class DecodingRequest(AQ.Request):
                """what a user writes to post-process the body: a cached property that is an ordinary method returning an awaitable"""
                @U.cached_property
                def body(self):
                    return self._upper()

                async def _upper(self):
                    return (await AQ.Request.body.func(self)).upper()
            Req = DecodingRequest
        req = Req({"type": "http", "method": "POST", "headers": [(b"content-type", ctype)], "path": "/", "query_string": b""}, receive)
        obs = await PROGRAMS[prog](req, V, log)
        return obs

    loop = VLoop()
    try:
        obs = loop.run_until_complete(app())
    finally:
        for t in asyncio.all_tasks(loop):
            t.cancel()
        try:
            loop.run_until_complete(asyncio.sleep(0))
        except BaseException:  # noqa: BLE001
            pass
        loop.close()
    return obs, log


async def _get(coro_or_future):
    """await an accessor; normalise the outcome"""
    try:
        return ("ok", await coro_or_future)
    except ClientDisconnect:
        return ("disconnect", None)
    except RuntimeError as ex:
        return ("runtime", str(ex))
    except HTTPException as ex:
        return ("http", ex.status_code)


async def _drain(req):
    try:
        return ("ok", [c async for c in req.stream()])
    except ClientDisconnect:
        return ("disconnect", None)
    except RuntimeError as ex:
        return ("runtime", str(ex))


async def p_body_twice_then_stream(req, V, log):
    a = await _get(req.body)
    fut1 = req.__dict__.get("body")
    b = await _get(req.body)
    fut2 = req.__dict__.get("body")
    s = await _drain(req)
    return {"body": [a, b], "same_future": fut1 is fut2, "stream_after_body": s}


async def p_concurrent_bodies(req, V, log):
    async def later(k):
        await _maybe_sleep(V["w"][k])
        return await _get(req.body)
    tasks = [asyncio.ensure_future(later(k)) for k in range(job_tasks(V) - 1)]
    first = await _get(req.body)
    rest = [await t for t in tasks]
    return {"body": [first] + rest}


def job_tasks(V):
    return V.get("tasks", 2)


async def p_stream_then_body(req, V, log):
    s = await _drain(req)
    b = await _get(req.body)
    s2 = await _drain(req)
    return {"stream": s, "body_after_stream": b, "stream_again": s2}


async def p_json_then_body(req, V, log):
    j = await _get(req.json)
    b = await _get(req.body)
    j2 = await _get(req.json)
    return {"json": [j, j2], "body": [b], "same_json_object": j[0] == "ok" and j2[0] == "ok" and j[1] is j2[1]}


async def p_form_then_body_close(req, V, log):
    f = await _get(req.form)
    b = await _get(req.body)
    f2 = await _get(req.form)
    try:
        await req.close()
    except ClientDisconnect:
        pass  # close() re-raises the stored disconnect of a failed form: not part of this property
    return {"form": [f, f2], "body": [b], "same_form_object": f[0] == "ok" and f2[0] == "ok" and f[1] is f2[1]}


async def p_multipart_form_twice_close(req, V, log):
    """multipart parsing reads the stream itself (no cached body): form, form again (cached), close"""
    f = await _get(req.form)
    f2 = await _get(req.form)
    try:
        await req.close()
    except ClientDisconnect:
        pass
    return {"form": [f, f2], "same_form_object": f[0] == "ok" and f2[0] == "ok" and f[1] is f2[1]}


async def p_concurrent_body_json(req, V, log):
    async def later():
        await _maybe_sleep(V["w"][0])
        return await _get(req.json)
    t = asyncio.ensure_future(later())
    b = await _get(req.body)
    j = await t
    return {"body": [b], "json": [j]}


async def p_close_then_body(req, V, log):
    await req.close()
    b = await _get(req.body)
    await req.close()
    b2 = await _get(req.body)
    return {"body": [b, b2]}


def _p_two_readers(first_kind, second_kind):
    """two tasks read the request concurrently (start offset of the second is symbolic): whoever owns the receive
    channel gets the whole body, the other one the documented error or (stream after a finished body) the replay"""
    async def read(req, kind):
        return (kind, await (_get(req.body) if kind == "body" else _drain(req)))

    async def prog(req, V, log):
        async def later():
            await _maybe_sleep(V["w"][0])
            return await read(req, second_kind)
        t = asyncio.ensure_future(later())
        a = await read(req, first_kind)
        return {"readers": [a, await t]}
    return prog


async def p_poll_then_body(req, V, log):
    """is_disconnected() polled while the client is still quiet (no message ready), then the body is read: nothing may get lost"""
    polled = await req.is_disconnected()
    b = await _get(req.body)
    return {"body": [b], "polled": polled}


PROGRAMS = {"body2+stream": p_body_twice_then_stream, "concurrent-body": p_concurrent_bodies, "stream+body": p_stream_then_body,
            "json+body": p_json_then_body, "form+body+close": p_form_then_body_close, "concurrent-body-json": p_concurrent_body_json,
            "close+body": p_close_then_body, "subclass-body-via-plain-method": p_body_twice_then_stream, "multipart-form+form+close": p_multipart_form_twice_close, "poll-disconnect+body": p_poll_then_body, "concurrent-body-stream": _p_two_readers("body", "stream"),
            "concurrent-stream-body": _p_two_readers("stream", "body"), "concurrent-stream-stream": _p_two_readers("stream", "stream")}
PAYLOAD = {"subclass-body-via-plain-method": "raw", "multipart-form+form+close": "multipart", "poll-disconnect+body": "raw", "concurrent-body-stream": "raw", "concurrent-stream-body": "raw", "concurrent-stream-stream": "raw",
           "body2+stream": "raw", "concurrent-body": "raw", "stream+body": "raw", "json+body": "json", "form+body+close": "form",
           "concurrent-body-json": "json", "close+body": "raw"}


def verdict_asgi(job, V, obs, log) -> str:
    nmsg, disc = V["nmsg"], V["disc"]
    wire = log["wire"]
    full = b"".join(wire)
    early = disc < nmsg  # disconnect arrives before the final chunk was delivered
    exp_body = ("disconnect", None) if early else ("ok", full)
    # every message consumed at most once, nothing requested past the end
    seen = [x for x in log["delivered"] if isinstance(x, int)]
    if len(seen) != len(set(seen)) or seen != sorted(seen):
        raise Fail("message-consumed-twice-or-out-of-order", str(log["delivered"]))
    if "past-end" in log["delivered"]:
        raise Fail("receive-after-final-message", str(log["delivered"]))
    if log["delivered"].count("disconnect") > 1:
        raise Fail("receive-after-disconnect")
    for b in obs.get("body", []):
        if b != exp_body:
            raise Fail("body-not-concatenation-of-chunks" if not early else "truncated-body-instead-of-disconnect", f"got {b!r}, expected {exp_body!r}")
    bodies = [b for b in obs.get("body", []) if b[0] == "ok"]
    if any(b[1] is not bodies[0][1] for b in bodies):
        raise Fail("body-not-cached-identical")
    if obs.get("same_future") is False:
        raise Fail("body-recomputed")
    if "readers" in obs:
        served = 0
        for kind, r in obs["readers"]:
            val = ("ok", b"".join(r[1])) if kind == "stream" and r[0] == "ok" else r
            if val == exp_body:
                served += 1
            elif val != ("runtime", "Stream consumed"):
                raise Fail("concurrent-reader-got-partial-data" if val[0] == "ok" else "concurrent-reader-wrong-error", f"{kind}: got {r!r}, expected {exp_body!r} or 'Stream consumed'")
        if served == 0:
            raise Fail("no-concurrent-reader-got-the-body", repr(obs["readers"]))
    prog = job["prog"]
    if prog == "body2+stream":
        s = obs["stream_after_body"]
        if early:
            if s[0] not in ("disconnect", "runtime"):
                raise Fail("stream-after-failed-body", repr(s))
        elif s[0] != "ok" or b"".join(s[1]) != full:
            raise Fail("stream-after-body-does-not-replay", repr(s))
    if prog == "stream+body":
        s = obs["stream"]
        if early:
            if s[0] != "disconnect":
                raise Fail("truncated-stream-instead-of-disconnect", repr(s))
        else:
            if s[0] != "ok" or b"".join(s[1]) != full or [c for c in s[1] if c] != [c for c in wire if c]:
                raise Fail("stream-chunks-wrong", repr(s))
        if obs["body_after_stream"] != ("runtime", "Stream consumed"):
            raise Fail("body-after-stream-not-rejected", repr(obs["body_after_stream"]))
        if obs["stream_again"] != ("runtime", "Stream consumed"):
            raise Fail("second-stream-not-rejected", repr(obs["stream_again"]))
    if "json" in obs:
        expj = ("disconnect", None) if early else ("ok", _json.loads(full))
        for j in obs["json"]:
            if j != expj:
                raise Fail("json-wrong", f"{j!r} expected {expj!r}")
        if not early and obs.get("same_json_object") is False:
            raise Fail("json-not-cached-identical")
    if "form" in obs:
        for f in obs["form"]:
            if early:
                if f != ("disconnect", None):
                    raise Fail("form-truncated-instead-of-disconnect", repr(f))
            elif f[0] != "ok" or f[1].multi_items() != [("a", "1"), ("b", "2"), ("a", "3")]:
                raise Fail("form-wrong", repr(f))
        if not early and obs.get("same_form_object") is False:
            raise Fail("form-not-cached-identical")
    if not early and len(seen) != nmsg:
        raise Fail("not-all-messages-consumed", str(log["delivered"]))
    return "disconnect" if early else "complete"


def sym_asgi(eng: Engine, job):
    """symbolic variables + the per-path concrete choices (made with engine forks inside fn)"""
    tasks = job.get("tasks", 2)
    d = [SInt(z3.Int(f"d{i}")) for i in range(N + 2)]
    w = [SInt(z3.Int(f"w{i}")) for i in range(max(1, tasks - 1))]
    for x in d + w:
        eng.solver.add(x.e >= 0, x.e <= 30)
    if job["prog"] == "poll-disconnect+body":
        eng.solver.add(d[0].e >= 1)  # the poll happens while no server message is ready (a ready body chunk is consumed by the poll: upstream's documented limit)
    return d, w


def job_asgi(job) -> report.JobResult:
    import sys
    sys.unraisablehook = lambda *a: None
    res = report.JobResult.new(job["name"])
    twin = job.get("twin", False)
    eng = Engine(budget_s=job.get("budget", 2400))
    d, w = sym_asgi(eng, job)
    tasks = job.get("tasks", 2)

    def fn():
        e = cur()
        nmsg = 1 + e.choose(N, "nmsg")
        empties = [bool(e.choose(2, f"empty{i}")) if job["payload"] == "raw" else False for i in range(nmsg)]
        disc = e.choose(N + 2, "disc")  # 0..N = index of the receive call that reports the disconnect, N+1 = never
        V = {"nmsg": nmsg, "empty": empties, "disc": disc if disc <= nmsg else N + 1, "d": d, "w": w, "tasks": tasks}
        e.path_notes["V"] = V
        obs, log = asgi_scenario(job, V)
        if twin:
            raise Fail("twin-assert-false")
        return verdict_asgi(job, V, obs, log)

    def on_path(e, r):
        kind, v = r
        V = e.path_notes.get("V")
        m = e.model()
        cV = None
        if V is not None:
            cV = dict(V, d=[m.eval(x.e, True).as_long() for x in d], w=[m.eval(x.e, True).as_long() for x in w])
        wit = {"omit_optional_keys": bool(job.get("omit_optional_keys")), "program": job["prog"], "messages": V and V["nmsg"], "empty": V and V["empty"], "disconnect_at_receive": V and V["disc"],
               "delays": cV and cV["d"], "task_offsets": cV and cV["w"], "tasks": tasks}
        if kind == "exc":
            if isinstance(v, Fail):
                klass, detail = v.klass, v.detail
            elif isinstance(v, DeadlockError):
                klass, detail = "deadlock", str(v)
            else:
                klass, detail = f"exception:{type(v).__name__}", repr(v)
            cp = concrete_asgi(job, cV) if cV else "no-choices-recorded"
            res.violation(f"C10/asgi/{job['prog']}/{klass.split(':')[0]}", wit, f"{klass} {detail}; concrete: {cp}", (cp is not None) or twin)
            return
        res.kind(v)
        if res["validated"] < 80 or e.paths % 20 == 0:
            cp = concrete_asgi(job, cV)
            if cp is not None:
                res["harness_errors"].append(f"symbolic schedule holds but its concrete instance fails: {wit}: {cp}")
            res["validated"] += 1
        res.sample(wit, limit=1)

    eng.explore(fn, on_path, prefix=job.get("prefix"))
    res.absorb_engine(eng)
    return res


def concrete_asgi(job, cV) -> Optional[str]:
    prev = Engine.cur
    Engine.cur = None
    try:
        obs, log = asgi_scenario(job, cV)
        verdict_asgi(job, cV, obs, log)
    except Fail as f:
        return f"{f.klass}: {f.detail}"
    except DeadlockError as ex:
        return f"deadlock: {ex}"
    except Exception as ex:  # noqa: BLE001
        return f"exception {type(ex).__name__}: {ex}"
    finally:
        Engine.cur = prev
    return None


# ------------------------------------------------------------------ WSGI
W_PROGRAMS = ["body,body,stream", "stream,body,stream", "json,body,json", "form,body,form,close", "close,body,close,body", "body,form", "stream-partial,body", "body,stream-tiny", "json,stream-tiny,body"]


def wsgi_scenario(prog: str, nchunks: int, empties_after: int):
    kind = "json" if prog.startswith("json") else "form" if "form" in prog else "raw"
    chunks = chunks_for(kind, nchunks) if nchunks else []
    log = {"reads": 0, "served": []}

    class Inp:
        def read(self, n=-1):
            i = log["reads"]
            log["reads"] += 1
            if i < len(chunks):
                log["served"].append(i)
                return chunks[i]
            return b""
    ctype = {"json": "application/json", "form": "application/x-www-form-urlencoded", "raw": "application/octet-stream"}[kind]
    req = WQ.Request({"REQUEST_METHOD": "POST", "CONTENT_TYPE": ctype, "wsgi.input": Inp(), "QUERY_STRING": ""})
    obs = []
    for step in prog.split(","):
        try:
            if step == "body":
                obs.append(("ok", req.body))
            elif step == "stream":
                obs.append(("ok", list(req.stream())))
            elif step == "stream-tiny":  # the replay of a cached body in pieces of 2 bytes (chunk_size is a public argument)
                obs.append(("ok", list(req.stream(2))))
            elif step == "stream-partial":
                it = req.stream()
                first = next(it, None)
                obs.append(("ok", first))
            elif step == "json":
                obs.append(("ok", req.json))
            elif step == "form":
                obs.append(("ok", req.form))
            elif step == "close":
                req.close()
                obs.append(("ok", None))
        except RuntimeError as ex:
            obs.append(("runtime", str(ex)))
        except HTTPException as ex:
            obs.append(("http", ex.status_code))
    return obs, log, chunks


def verdict_wsgi(prog, nchunks, obs, log, chunks) -> str:
    full = b"".join(chunks)
    steps = prog.split(",")
    if log["served"] != sorted(set(log["served"])):
        raise Fail("chunk-read-twice")
    if log["reads"] > len(chunks) + 1:
        raise Fail("read-after-end-of-input", f"{log['reads']} reads for {len(chunks)} chunks")
    streamed = False
    cached_body = None
    body_cached = False
    for step, o in zip(steps, obs):
        if step == "body":
            if streamed and not body_cached:
                if o != ("runtime", "Stream consumed"):
                    raise Fail("body-after-stream-not-rejected", repr(o))
                continue
            if o != ("ok", full):
                raise Fail("body-not-concatenation-of-chunks", f"{o!r} expected {full!r}")
            if cached_body is not None and o[1] is not cached_body:
                raise Fail("body-not-cached-identical")
            cached_body = o[1]
            body_cached = True
        elif step == "stream-tiny":
            if not body_cached:
                raise Fail("harness: stream-tiny is only used after the body was read")
            if o[0] != "ok" or b"".join(o[1]) != full:
                raise Fail("stream-after-body-does-not-replay", repr(o))
        elif step == "stream":
            if body_cached:
                if o[0] != "ok" or b"".join(o[1]) != full:
                    raise Fail("stream-after-body-does-not-replay", repr(o))
            elif streamed:
                if o != ("runtime", "Stream consumed"):
                    raise Fail("second-stream-not-rejected", repr(o))
            else:
                if o[0] != "ok" or o[1] != chunks:
                    raise Fail("stream-chunks-wrong", repr(o))
                streamed = True
        elif step == "stream-partial":
            streamed = True
        elif step == "json":
            if o != ("ok", _json.loads(full)):
                raise Fail("json-wrong", repr(o))
            body_cached = True
        elif step == "form":
            if o[0] != "ok" or o[1].multi_items() != [("a", "1"), ("b", "2"), ("a", "3")]:
                raise Fail("form-wrong", repr(o))
            body_cached = True
    js = [o for s_, o in zip(steps, obs) if s_ == "json" and o[0] == "ok"]
    if len(js) == 2 and js[0][1] is not js[1][1]:
        raise Fail("json-not-cached-identical")
    fs = [o for s_, o in zip(steps, obs) if s_ == "form" and o[0] == "ok"]
    if len(fs) == 2 and fs[0][1] is not fs[1][1]:
        raise Fail("form-not-cached-identical")
    return "wsgi"


def job_wsgi(job) -> report.JobResult:
    res = report.JobResult.new(job["name"])
    twin = job.get("twin", False)
    prog = job["prog"]
    eng = Engine()
    lo = 1 if ("json" in prog or "form" in prog) else 0

    def fn():
        e = cur()
        n = lo + e.choose(N + 1 - lo, "nchunks")
        e.path_notes["n"] = n
        obs, log, chunks = wsgi_scenario(prog, n, 0)
        if twin:
            raise Fail("twin-assert-false")
        return verdict_wsgi(prog, n, obs, log, chunks)

    def on_path(e, r):
        kind, v = r
        n = e.path_notes.get("n")
        wit = {"program": prog, "chunks": n, "interface": "wsgi"}
        if kind == "exc":
            klass = v.klass if isinstance(v, Fail) else f"exception:{type(v).__name__}"
            prev = Engine.cur
            Engine.cur = None
            try:
                verdict_wsgi(prog, n, *wsgi_scenario(prog, n, 0))
                cp = None
            except Fail as f2:
                cp = f"{f2.klass}: {f2.detail}"
            except Exception as ex:  # noqa: BLE001
                cp = f"exception {type(ex).__name__}: {ex}"
            finally:
                Engine.cur = prev
            res.violation(f"C10/wsgi/{prog}/{klass.split(':')[0]}", wit, f"{klass} {getattr(v, 'detail', repr(v))}; concrete: {cp}", (cp is not None) or twin)
            return
        res.kind(v)
        res["validated"] += 1
        res.sample(wit, limit=1)

    eng.explore(fn, on_path)
    res.absorb_engine(eng)
    return res


def jobs(tier: str):
    b = META["bounds"][tier]
    out = []
    for prog in PROGRAMS:
        job = dict(name=f"asgi/{prog}", kind="asgi", prog=prog, payload=PAYLOAD[prog], tasks=2, weight=100)
        out.append(job)
        if prog == "concurrent-body" and b["concurrent_tasks_max"] >= 3:
            out.append(dict(job, name=f"asgi/{prog}/3tasks", tasks=3, weight=1000))
    for prog in ("body2+stream", "stream+body", "concurrent-body", "close+body"):
        out.append(dict(name=f"asgi/{prog}/optional-message-keys-omitted", kind="asgi", prog=prog, payload=PAYLOAD[prog], tasks=2, omit_optional_keys=True, weight=100))
    for prog in W_PROGRAMS:
        out.append(dict(name=f"wsgi/{prog}", kind="wsgi", prog=prog))
    out.append(dict(name="twin/asgi", kind="asgi", prog="body2+stream", payload="raw", tasks=2, twin=True))
    out.append(dict(name="twin/wsgi", kind="wsgi", prog="body,body,stream", twin=True))
    return out


def run_job(job):
    return job_asgi(job) if job["kind"] == "asgi" else job_wsgi(job)


def replay(rec) -> int:
    w = rec["witness"]
    if w.get("interface") == "wsgi":
        try:
            verdict_wsgi(w["program"], w["chunks"], *wsgi_scenario(w["program"], w["chunks"], 0))
            cp = None
        except Fail as f:
            cp = f"{f.klass}: {f.detail}"
    else:
        job = dict(prog=w["program"], payload=PAYLOAD[w["program"]], tasks=w.get("tasks", 2), omit_optional_keys=w.get("omit_optional_keys", False))
        cV = {"nmsg": w["messages"], "empty": w["empty"], "disc": w["disconnect_at_receive"], "d": w["delays"], "w": w["task_offsets"], "tasks": w.get("tasks", 2)}
        cp = concrete_asgi(job, cV)
    print(f"replay C10: {w} -> {cp}")
    return 1 if cp else 0
