"""C15 -- multipart limits are exact and enforced with bounded buffering.

Real code run: parse_stream / parse_async_stream (limit accounting), MultipartDecoder.next_event / last_newline
(hold-back computation), on proxies (same shims as C01).

limits  max_form_parts and max_form_memory_size are SYMBOLIC integers: for every enumerated form and chunking the
        solver decides for ALL limit values at once that 413 is raised exactly when parts > max or field bytes > limit,
        identically for the sync and the async helper.
buffer  the content of a part is symbolic: first bytes over the full 0..255 domain, the following bytes symbolic but
        assumed to be no line break (one class).  After every arriving chunk the bytes held back by the decoder must
        not exceed len(chunk) + len(delimiter) + 4 -- i.e. data is streamed out as it arrives for EVERY such content.
"""
from __future__ import annotations

import itertools
from typing import Any, Dict, List

import z3

import baize.multipart as M
import baize.multipart_helper as MH
from baize.exceptions import RequestEntityTooLarge

from engine import report
from engine.forksym import Engine, Pruned, SInt, conc, cur, term_of
from engine.symseq import SBytes
from engine.vloop import drive

from . import mp_common as C

PID = "C15"

META = {
    "functions": lambda: [MH.parse_stream, MH.parse_async_stream, M.MultipartDecoder.next_event, M.MultipartDecoder.last_newline,
                          M.MultipartDecoder.receive_data],
    "engines": ["E-FS (forksym; ReShim for the decoder's regexes)"],
    "stubs": C.STUBS,
    "assumptions": ["limits family: part sizes/kinds come from an enumerated form list (sequence lengths are concrete in this engine); the two limits "
                    "are unbounded symbolic integers (max_form_memory_size may also be None)",
                    "buffer family: content = k free bytes (0..255) followed by symbolic bytes assumed to be neither CR nor LF; CRLF framing"],
    "bounds": {"quick": {"forms": 12, "free_leading_bytes": 3, "tail_bytes": 24, "chunk_sizes": [1, 3, 8]},
               "thorough": {"forms": 12, "free_leading_bytes": 3, "tail_bytes": 40, "chunk_sizes": [1, 2, 3, 8, 16]}},
    "outside": ["contents with line breaks after the leading bytes other than the stated delimiter look-alike line (C01 covers exactness there)", "transport padding after a REAL delimiter (padding after a look-alike: job lookalike-padding, a recorded finding)",
                "spooling of UploadFile to disk"],
    "expect_kinds": {"all": ["accepted", "413", "bounded"]},
}

FORMS = [
    [("field", 0)], [("field", 5)], [("file", 9)], [("field", 3), ("field", 4)], [("field", 3), ("file", 50), ("field", 2)],
    [("file", 1), ("file", 1), ("file", 1)], [("field", 1), ("field", 1), ("field", 1), ("field", 1)], [],
    [("field", 40), ("field", 25), ("field", 33)], [("file", 0), ("field", 7)], [("field", 2), ("field", 0), ("field", 2)], [("file", 3)] * 4,
]


class Fail(Exception):
    def __init__(self, klass, detail=""):
        self.klass, self.detail = klass, detail


def build_form(spec, filename="f.bin"):
    parts = []
    for i, (kind, n) in enumerate(spec):
        content = [(65 + (i * 7 + j) % 26) for j in range(n)]
        parts.append(C.Part(kind, f"n{i}", content, filename if kind == "file" else None))
    return parts


def run_limits(entry, chunks, boundary, maxp, maxm, factory=C.Sink):
    limits = {"max_form_parts": maxp, "max_form_memory_size": maxm}
    try:
        r = C.run_entry(entry, chunks, boundary, limits=limits, factory=factory)
        return ("ok", len(r), sum(1 for t in r if t[0] == "file"))
    except RequestEntityTooLarge:
        return ("413", None)


def job_limits(job) -> report.JobResult:
    res = report.JobResult.new(job["name"])
    twin = job.get("twin", False)
    spec = FORMS[job["form"]]
    boundary = job.get("boundary", b"bnd")
    parts = build_form(spec, job.get("filename", "f.bin"))
    body = C.encode_form(parts, boundary, pad=job.get("pad", b""), eq=job.get("eq", b"="))
    nparts = len(spec)
    fbytes = sum(n for k, n in spec if k == "field")
    cutlists = [[], list(range(1, len(body))), [len(body) // 2], list(range(7, len(body), 7))]
    if job.get("pad") or job.get("every_cut"):  # a chunk border at every position of the padded delimiters
        cutlists += [[i] for i in range(1, len(body))]
    shims = C.make_shims()
    factory = C.LenSink if job.get("sink") == "len" else C.Sink  # file_factory is a caller-supplied hook: also one that is falsy while empty
    for mem_none in (False, True):
        for cuts in cutlists:
            eng = Engine()
            maxp_v, maxm_v = z3.Int("max_parts"), z3.Int("max_mem")
            eng.solver.add(maxp_v >= 0, maxm_v >= 0)
            maxm = None if mem_none else SInt(maxm_v)

            def fn():
                chunks = [C.mk_chunk(c) for c in C.split(body, cuts)]
                a = run_limits("parse_stream", chunks, boundary, SInt(maxp_v), maxm, factory)
                b = run_limits("parse_async_stream", chunks, boundary, SInt(maxp_v), maxm, factory)
                return a, b

            def on_path(e, r, cuts=cuts, mem_none=mem_none):
                kind, v = r
                klass = detail = None
                over = (nparts > maxp_v) if mem_none else z3.Or(nparts > maxp_v, fbytes > maxm_v)
                try:
                    if kind == "exc":
                        raise Fail(f"exception:{type(v).__name__}", repr(v))
                    if twin:
                        raise Fail("twin-assert-false")
                    a, b = v
                    for who, o in (("sync", a), ("async", b)):
                        if o[0] == "413":
                            if e.check(z3.Not(over)):
                                raise Fail(f"{who}-413-within-limits")
                        else:
                            if e.check(over):
                                raise Fail(f"{who}-accepted-over-limit")
                            if o[1] != nparts:
                                raise Fail(f"{who}-part-count")
                            if o[2] != sum(1 for k_, _ in spec if k_ == "file"):
                                raise Fail(f"{who}-file-part-not-handed-to-the-file-sink", f"{o[2]} file parts returned")
                    if a[0] != b[0]:
                        raise Fail("sync-async-differ")
                    outcome = "413" if a[0] == "413" else "accepted"
                except Fail as f:
                    klass, detail = f.klass, f.detail
                if klass is None or not klass.endswith(("within-limits", "over-limit")):
                    e.last_sat = False
                m = e.witness()
                mp = m.eval(maxp_v, True).as_long()
                mm = None if mem_none else m.eval(maxm_v, True).as_long()
                wit = {"form": job["form"], "parts": spec, "cuts": cuts if len(cuts) < 6 else f"every {cuts[1] - cuts[0]}", "cuts_list": cuts,
                       "max_form_parts": mp, "max_form_memory_size": mm, "sink": job.get("sink"), "pad_hex": job.get("pad", b"").hex(), "eq_hex": job.get("eq", b"=").hex(),
                       "boundary": job.get("boundary", b"bnd").decode("latin-1"), "filename": job.get("filename", "f.bin")}
                with shims.off():
                    cp = concrete_limits(wit)
                if klass is not None:
                    res.violation(f"C15/limits/{klass.split(':')[0]}", wit, f"{klass} {detail}; concrete: {cp}", (cp is not None) or twin)
                    return
                res.kind(outcome)
                if cp is not None:
                    res["harness_errors"].append(f"symbolic path holds but concrete run fails: {wit}: {cp}")
                res["validated"] += 1
                res.sample({k: wit[k] for k in ("parts", "max_form_parts", "max_form_memory_size")} | {"outcome": outcome}, limit=1)

            with shims:
                eng.explore(fn, on_path)
            res.absorb_engine(eng)
    res["recipes"] = 2 * len(cutlists)
    return res


def concrete_limits(w):
    spec = [tuple(x) for x in w["parts"]]
    boundary = w.get("boundary", "bnd").encode("latin-1")
    body = bytes(C.encode_form(build_form(spec, w.get("filename", "f.bin")), boundary, pad=bytes.fromhex(w.get("pad_hex", "")), eq=bytes.fromhex(w.get("eq_hex", "3d"))))
    nparts = len(spec)
    fbytes = sum(n for k, n in spec if k == "field")
    over = nparts > w["max_form_parts"] or (w["max_form_memory_size"] is not None and fbytes > w["max_form_memory_size"])
    from baize.datastructures import UploadFile
    out = []
    for entry in ("parse_stream", "parse_async_stream"):
        r = C.run_concrete(entry, body, w["cuts_list"], boundary,
                           limits={"max_form_parts": w["max_form_parts"], "max_form_memory_size": w["max_form_memory_size"]},
                           factory=C.LenSink if w.get("sink") == "len" else None)
        got413 = isinstance(r, tuple) and r[0] == "exc" and r[2] == 413
        if isinstance(r, tuple) and r[0] == "exc" and not got413:
            return f"{entry}: {r}"
        if got413 != over:
            return f"{entry}: {'413' if got413 else 'accepted'} with parts={nparts} field_bytes={fbytes} limits=({w['max_form_parts']}, {w['max_form_memory_size']})"
        if not got413 and sum(1 for t in r if t[0] == "file") != sum(1 for k, _ in spec if k == "file"):
            return f"{entry}: a file part was not handed to the file sink: {[t[0] for t in r]}"
        out.append(got413)
    return None


# ------------------------------------------------------------------ bounded buffering
def job_buffer(job) -> report.JobResult:
    res = report.JobResult.new(job["name"])
    twin = job.get("twin", False)
    nfree, ntail, csize, kind = job["free"], job["tail"], job["chunk"], job["part"]
    boundary = b"bnd"
    eng = Engine(budget_s=1500)
    free = [z3.Int(f"f{i}") for i in range(nfree)]
    tail = [z3.Int(f"t{i}") for i in range(ntail)]
    for v in free:
        eng.solver.add(v >= 0, v <= (127 if kind == "field" else 255))
    for v in tail:
        eng.solver.add(v >= 0, v <= (127 if kind == "field" else 255), v != 10, v != 13)
    if job.get("padding"):
        # delimiter look-alike followed by blanks only (RFC 2046 "transport padding") and then an ordinary byte: still content
        for v in tail[:-1]:
            eng.solver.add(z3.Or(v == 32, v == 9))
        eng.solver.add(tail[-1] == 120)
    mention = list(b"x--" + boundary) if job.get("mention") else []  # the boundary text in a NON-delimiter position (no line break before it)
    if job.get("lookalike"):
        # a line that starts like a delimiter -- <line break>--<boundary> -- but continues with two symbolic bytes that keep it from being one
        # (no ASCII white space -- transport padding is outside this check; a '-' is not followed by a second '-'): still content, and everything after it must keep streaming
        la = [z3.Int("la0"), z3.Int("la1")]
        hi = 127 if kind == "field" else 255
        eng.solver.add(la[0] >= 0, la[0] <= hi, la[1] >= 0, la[1] <= hi, *[la[0] != k for k in (9, 10, 11, 12, 13, 32)],
                       z3.Implies(la[0] == 45, la[1] != 45))
        mention = list({"lf": b"\n", "crlf": b"\r\n", "cr": b"\r"}[job["lookalike"]] + b"--" + boundary) + ([] if job.get("padding") else [SInt(v) for v in la])
    content = [SInt(v) for v in free] + mention + [SInt(v) for v in tail]
    part = C.Part(kind, "n", content, "f.bin" if kind == "file" else None)
    body = C.encode_form([part], boundary)
    start = next(i for i, x in enumerate(body) if isinstance(x, SInt))
    cuts = list(range(start, len(body), csize))  # headers in one chunk, then fixed-size chunks through the content
    slack = len(boundary) + 8 + 4
    shims = C.make_shims()
    delim = list(b"--" + boundary)

    def fn():
        if not mention and SBytes(content).find(delim) != -1:
            raise cur()._raise(Pruned())
        if job.get("lookalike") and SBytes(content[-(ntail + 2):]).find(delim) != -1:
            raise cur()._raise(Pruned())  # the symbolic bytes after the look-alike must not spell the delimiter themselves
        worst = {"excess": None, "at": None}

        def observe(dec, chunk):
            pass
        d = M.MultipartDecoder(boundary, "utf8")
        received = 0
        handed = 0
        log = []
        for c in [C.mk_chunk(x) for x in C.split(body, cuts)] + [None]:
            d.receive_data(c)
            if c is not None:
                received += len(c)
            while True:
                ev = d.next_event()
                if isinstance(ev, (M.NeedData, M.Epilogue)):
                    break
                if isinstance(ev, M.Data):
                    handed += len(ev.data)
            pending = len(d.buffer)
            log.append((0 if c is None else len(c), pending))
        return log

    def on_path(e, r):
        kind_, v = r
        klass = detail = None
        try:
            if kind_ == "exc":
                raise Fail(f"exception:{type(v).__name__}", repr(v))
            if twin:
                raise Fail("twin-assert-false")
            for i, (clen, pending) in enumerate(v):
                if pending > clen + slack:
                    raise Fail("buffer-grows-with-the-part", f"after chunk {i} ({clen} bytes) {pending} bytes are held back (> chunk + delimiter + 4 = {clen + slack})")
        except Fail as f:
            klass, detail = f.klass, f.detail
        e.last_sat = False
        m = e.witness()
        cb = bytes(conc(content, m))
        wit = {"part": kind, "content_hex": cb.hex(), "chunk_size": csize, "boundary": "bnd", "mention": bool(mention)}
        with shims.off():
            cp = concrete_buffer(wit)
        if klass is not None:
            lead = "CR" if cb[:1] == b"\r" else "LF" if cb[:1] == b"\n" else "other"
            key = f"C15/buffer/{klass}/leading-{lead}" if klass.startswith("buffer") else f"C15/buffer/{klass.split(':')[0]}"
            if klass.startswith("buffer") and job.get("padding"):
                key = "C15/buffer/transport-padding-after-a-boundary-lookalike-is-held-back"
            res.violation(key, wit,
                          f"{klass} {detail}; concrete: {cp}", (cp is not None) or twin)
            return
        res.kind("bounded")
        if cp is not None:
            res["harness_errors"].append(f"symbolic path holds but concrete run fails: {wit}: {cp}")
        res["validated"] += 1
        res.sample(wit, limit=1)

    with shims:
        eng.explore(fn, on_path)
    res.absorb_engine(eng)
    return res


def concrete_buffer(w):
    boundary = w["boundary"].encode()
    content = bytes.fromhex(w["content_hex"])
    part = C.Part(w["part"], "n", list(content), "f.bin" if w["part"] == "file" else None)
    body = bytes(C.encode_form([part], boundary))
    start = body.index(b"\r\n\r\n") + 4
    cuts = list(range(start, len(body), w["chunk_size"]))
    slack = len(boundary) + 8 + 4
    d = M.MultipartDecoder(boundary, "utf8")
    out = b""
    for i, c in enumerate([bytes(x) for x in C.split(list(body), cuts)] + [None]):
        d.receive_data(c)
        while True:
            ev = d.next_event()
            if isinstance(ev, (M.NeedData, M.Epilogue)):
                break
            if isinstance(ev, M.Data):
                out += ev.data
        clen = 0 if c is None else len(c)
        if len(d.buffer) > clen + slack:
            return f"after chunk {i} ({clen} bytes) {len(d.buffer)} bytes are held back"
    if out != content:
        return f"decoded content differs: {out!r}"
    return None


def jobs(tier: str):
    b = META["bounds"][tier]
    out = []
    for i in range(b["forms"]):
        out.append(dict(name=f"limits/form{i}", kind="limits", form=i, weight=20))
    out.append(dict(name="limits/form3/padded-delimiters", kind="limits", form=3, pad=b" \t" * 20, weight=200))
    for i in (2, 4):
        for tag, eq in (("blank-before-equals", b" ="), ("blanks-around-equals", b" = "), ("tab-before-equals", b"\t=")):
            out.append(dict(name=f"limits/form{i}/{tag}", kind="limits", form=i, eq=eq, weight=20))
    # boundaries with characters that are special in a regular expression (RFC 2046 bchars), a chunk border at every position
    for bnd in (b"x+y", b"what?", b"a.b(c)", b"----=_Part_1+2"):
        out.append(dict(name=f"limits/form3/boundary:{bnd.decode()}", kind="limits", form=3, boundary=bnd, every_cut=True, weight=60))
        out.append(dict(name=f"limits/form4/boundary:{bnd.decode()}", kind="limits", form=4, boundary=bnd, every_cut=True, weight=90))
    # a file part whose filename parameter is present but EMPTY is still a file part (its bytes never count as field data)
    for i in (2, 4):
        out.append(dict(name=f"limits/form{i}/empty-filename", kind="limits", form=i, filename="", weight=20))
    for i in (2, 4, 9):  # forms with file parts
        out.append(dict(name=f"limits/form{i}/sink-falsy-while-empty", kind="limits", form=i, sink="len", weight=20))
    out.append(dict(name="twin/limits", kind="limits", form=1, twin=True))
    for part in ("file", "field"):
        for nfree in range(1, b["free_leading_bytes"] + 1):
            for cs in b["chunk_sizes"]:
                out.append(dict(name=f"buffer/{part}/free{nfree}/chunk{cs}", kind="buffer", part=part, free=nfree, tail=b["tail_bytes"], chunk=cs, weight=4 ** nfree * 10))
    for part in ("file", "field"):
        for lb in ("lf", "crlf", "cr"):
            for cs in b["chunk_sizes"]:
                out.append(dict(name=f"buffer/{part}/lookalike-{lb}/chunk{cs}", kind="buffer", part=part, free=1, tail=b["tail_bytes"], chunk=cs, mention=True,
                                lookalike=lb, weight=60))
    for part in ("file", "field"):
        out.append(dict(name=f"buffer/{part}/lookalike-padding/chunk1", kind="buffer", part=part, free=1, tail=b["tail_bytes"], chunk=1, mention=True,
                        lookalike="crlf", padding=True, weight=30))
    for part in ("file", "field"):
        for cs in b["chunk_sizes"]:
            out.append(dict(name=f"buffer/{part}/mention/chunk{cs}", kind="buffer", part=part, free=1, tail=b["tail_bytes"], chunk=cs, mention=True, weight=40))
    out.append(dict(name="twin/buffer", kind="buffer", part="file", free=1, tail=4, chunk=2, twin=True))
    return out


def run_job(job):
    return job_limits(job) if job["kind"] == "limits" else job_buffer(job)


def replay(rec) -> int:
    w = rec["witness"]
    cp = concrete_buffer(w) if "content_hex" in w else concrete_limits(w)
    print(f"replay C15: {w} -> {cp}")
    return 1 if cp else 0
