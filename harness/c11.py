"""C11 -- the WebSocket wrapper only forwards protocol-legal event sequences.

Real code run: baize.asgi.websocket.WebSocket.{receive,send,accept,receive_text,receive_bytes,
iter_text,iter_bytes,send_text,send_bytes,close,_raise_on_disconnect}, WebsocketDenialResponse.

Two obligations families:
  step  ONE INDUCTIVE STEP from an arbitrary (client_state, application_state) pair: the state pair,
        the call, and the next server events are symbolic choices decided by the solver; frame
        payloads, close codes and reasons are symbolic values.  The invariant "application_state
        summarises what was forwarded, client_state what was delivered" is assumed before and
        asserted after, so the step covers call histories of any length.
  seq   whole histories from the initial state: <=3 (quick) / <=4 (thorough) calls against a
        symbolic server script (connect, k frames, disconnect at a symbolic position, possibly an
        illegal event), checked by a protocol monitor; frames must come back in order, exactly once.
Every inductive counterexample is confirmed by a concrete public-API history that first reaches
the pre-state (raw receive()/send() calls) before it is reported.
"""
from __future__ import annotations

from typing import Any, Dict, List, Optional

import z3

import baize.asgi.websocket as WS
from baize.asgi.websocket import WebSocket, WebSocketDisconnect, WebSocketState, WebsocketDenialResponse

from engine import report
from engine.forksym import Engine, SInt, conc, cur
from engine.symseq import SBytes, SStr
from engine.vloop import drive

PID = "C11"
ST = [WebSocketState.CONNECTING, WebSocketState.CONNECTED, WebSocketState.DISCONNECTED]
IDX = {s: i for i, s in enumerate(ST)}
CALLS = ["accept", "receive", "receive_text", "receive_bytes", "send_text", "send_bytes", "close",
         "raw_accept", "raw_close", "raw_send", "iter_text", "iter_bytes", "close_code"]
EVENTS = ["websocket.connect", "websocket.receive", "websocket.disconnect"]

META = {
    "functions": lambda: [WebSocket.receive, WebSocket.send, WebSocket.accept, WebSocket._raise_on_disconnect, WebSocket.receive_text,
                          WebSocket.receive_bytes, WebSocket.iter_text, WebSocket.iter_bytes, WebSocket.send_text, WebSocket.send_bytes,
                          WebSocket.close, WebSocket.__init__, WebsocketDenialResponse.__call__],
    "engines": ["E-FS (forksym): state pair / call / event choices are solver-decided forks, payloads symbolic"],
    "stubs": ["server receive()/send() -> scripted coroutines that never suspend (driven without an event loop)"],
    "assumptions": ["the ASGI server's send() does not raise", "step family: the pre-state satisfies the invariant linking the two state "
                    "fields to what was forwarded / delivered (every such pre-state is reachable through raw receive()/send())"],
    "bounds": {"quick": {"step": "all 9 state pairs x 13 calls x 2 next server events (3 kinds each, legal or not)", "seq_calls_max": 3, "frames_max": 2},
               "thorough": {"step": "same", "seq_calls_max": 4, "frames_max": 3}},
    "outside": ["histories longer than the seq bound are covered only through the inductive step", "server send() failures", "concurrent use of one WebSocket from several tasks"],
    "expect_kinds": {"all": ["forwarded", "raised", "returned"]},
}


class Fail(Exception):
    def __init__(self, klass, detail=""):
        self.klass, self.detail = klass, detail


class Server:
    """Scripted ASGI server side. events: list of event-kind indexes; payloads symbolic."""

    def __init__(self, events: List[int], payloads: List[Dict[str, Any]]):
        self.events = events
        self.payloads = payloads
        self.n = 0
        self.sent: List[Dict[str, Any]] = []
        self.delivered: List[Dict[str, Any]] = []

    async def receive(self):
        i = self.n
        self.n += 1
        if i >= len(self.events):
            raise Fail("receive-beyond-script", f"receive #{i + 1}")
        m = dict(self.payloads[i], type=EVENTS[self.events[i]])
        self.delivered.append(m)
        return m

    async def send(self, m):
        self.sent.append(m)


FULL_SHAPE_FRAMES = [99]


def payload(i: int, kind: int) -> Dict[str, Any]:
    """Event payload per the ASGI spec: connect carries nothing, receive carries text+bytes, disconnect code+reason."""
    e = cur()
    if kind == 1:
        # a frame may be EMPTY (legal): fork-decided per frame, recorded for the concrete replay
        # the frame's shape is fork-decided and recorded for the concrete replay: a text or a bytes frame (the other key None, as servers
        # deliver it), empty (legal) or not
        seen = len(e.path_notes.setdefault("empty_frames", {}))
        # all four shapes for the first FULL_SHAPE_FRAMES frames of a history, text / empty text for later ones (long thorough histories)
        shape = e.choose(4 if seen < FULL_SHAPE_FRAMES[0] else 2, f"frameshape{i}")  # 0 text, 1 empty text, 2 bytes, 3 empty bytes
        e.path_notes["empty_frames"][i] = shape
        if shape == 0:
            return {"text": SStr.fresh(1, f"t{i}_", 0, 0x10FFFF), "bytes": None}
        if shape == 1:
            return {"text": "", "bytes": None}
        if shape == 2:
            return {"text": None, "bytes": SBytes.fresh(1, f"b{i}_", 0, 255)}
        return {"text": None, "bytes": b""}
    if kind == 2:
        return {"code": e.fresh(f"code{i}", 1000, 4999), "reason": SStr.fresh(1, f"r{i}_", 0, 0x10FFFF)}
    return {}


def cpayload(i: int, kind: int, empties=None) -> Dict[str, Any]:
    if kind == 1:
        shape = (empties or {}).get(i, (empties or {}).get(str(i), 0))
        return [{"text": f"T{i}", "bytes": None}, {"text": "", "bytes": None}, {"text": None, "bytes": bytes([65 + i])}, {"text": None, "bytes": b""}][shape]
    if kind == 2:
        return {"code": 1000 + i, "reason": f"R{i}"}
    return {}


def expected_legal(call: str, pre_cs: int, pre_as: int, evs: List[int]) -> bool:
    """Calls the wrapper must carry out (not reject) from this pre-state given the coming server events."""
    def server_ok(c, k):
        for t in evs[:k]:
            if c == 0:
                if t != 0:
                    return False
                c = 1
            elif c == 1:
                if t == 0:
                    return False
                if t == 2:
                    c = 2
            else:
                return True
        return True
    if call == "accept":
        return pre_as == 0 and (pre_cs != 0 or (len(evs) > 0 and evs[0] == 0))
    if call in ("send_text", "send_bytes", "raw_send"):
        return pre_as == 1
    if call in ("close", "close_code"):
        return True
    if call == "raw_close":
        return pre_as != 2
    if call == "raw_accept":
        return pre_as == 0
    if call == "receive":
        return pre_cs != 2 and server_ok(pre_cs, 1)
    if call in ("receive_text", "receive_bytes"):
        return pre_as == 1 and pre_cs == 1 and len(evs) > 0 and evs[0] in (1, 2)
    if call in ("iter_text", "iter_bytes"):
        return pre_as == 1 and pre_cs == 1 and all(t in (1, 2) for t in evs[:evs.index(2) + 1] if 2 in evs) and 2 in evs
    return False


def do_call(ws: WebSocket, call: str, arg_text, arg_bytes, arg_code):
    """returns ('ret', value) or ('raise', exc)."""
    try:
        if call == "accept":
            return "ret", drive(ws.accept())
        if call == "receive":
            return "ret", drive(ws.receive())
        if call == "receive_text":
            return "ret", drive(ws.receive_text())
        if call == "receive_bytes":
            return "ret", drive(ws.receive_bytes())
        if call == "send_text":
            return "ret", drive(ws.send_text(arg_text))
        if call == "send_bytes":
            return "ret", drive(ws.send_bytes(arg_bytes))
        if call == "close":
            return "ret", drive(ws.close())
        if call == "close_code":
            return "ret", drive(ws.close(arg_code, arg_text))
        if call == "raw_accept":
            return "ret", drive(ws.send({"type": "websocket.accept"}))
        if call == "raw_close":
            return "ret", drive(ws.send({"type": "websocket.close", "code": arg_code}))
        if call == "raw_send":
            return "ret", drive(ws.send({"type": "websocket.send", "text": arg_text}))
        if call in ("iter_text", "iter_bytes"):
            async def consume():
                out = []
                it = ws.iter_text() if call == "iter_text" else ws.iter_bytes()
                async for x in it:
                    out.append(x)
                return out
            return "ret", drive(consume())
    except Fail:
        raise
    except Exception as ex:  # noqa: BLE001
        return "raise", ex
    raise ValueError(call)


def monitor(pre_as: int, pre_cs: int, srv: Server, ws: WebSocket, call: str, outcome, args, evs=None) -> str:
    """Protocol monitor for one call. Raises Fail on violation; returns outcome kind."""
    kind, val = outcome
    # ---- forwarded messages legal w.r.t. what had been forwarded before (summarised by pre_as)
    a = pre_as
    for m in srv.sent:
        t = m.get("type")
        if a == 0:
            if t not in ("websocket.accept", "websocket.close"):
                raise Fail("illegal-forward", f"{t} before accept/close")
            a = 2 if t == "websocket.close" else 1
        elif a == 1:
            if t not in ("websocket.send", "websocket.close"):
                raise Fail("illegal-forward", f"{t} while connected")
            a = 2 if t == "websocket.close" else 1
        else:
            raise Fail("forward-after-close", f"{t}")
    if IDX[ws.application_state] != a:
        raise Fail("application-state-out-of-step", f"reported {ws.application_state} after forwarding {[m['type'] for m in srv.sent]} from {ST[pre_as]}")
    # ---- receives: none after a disconnect was delivered; client_state tracks deliveries
    c = pre_cs
    legal_server = True
    for m in srv.delivered:
        if c == 2:
            raise Fail("receive-after-disconnect")
        t = m["type"]
        if c == 0:
            if t == "websocket.connect":
                c = 1
            else:
                legal_server = False
                break
        else:
            if t == "websocket.disconnect":
                c = 2
            elif t != "websocket.receive":
                legal_server = False
                break
    if legal_server and IDX[ws.client_state] != c:
        raise Fail("client-state-out-of-step", f"reported {ws.client_state}, delivered {[m['type'] for m in srv.delivered]} from {ST[pre_cs]}")
    if IDX[ws.client_state] < pre_cs or IDX[ws.application_state] < pre_as:
        raise Fail("state-moved-backwards")
    # ---- per-call contract
    n = len(srv.delivered)
    ns = len(srv.sent)
    if kind == "raise":
        if isinstance(val, WebSocketDisconnect):
            if call not in ("receive_text", "receive_bytes"):
                raise Fail("unexpected-disconnect-exception", call)
            last = srv.delivered[-1]
            if last["type"] != "websocket.disconnect" or val.code is not last["code"]:
                raise Fail("disconnect-exception-mismatch")
            return "raised"
        if evs is not None and expected_legal(call, pre_cs, pre_as, evs):
            raise Fail("legal-call-raised", f"{call} from ({ST[pre_cs].name},{ST[pre_as].name}) raised {val!r}")
        if ns:
            raise Fail("raised-after-forwarding", f"{call} forwarded {[m['type'] for m in srv.sent]} then raised {val!r}")
        return "raised"
    # returned normally
    if call == "accept":
        if n != (1 if pre_cs == 0 else 0):
            raise Fail("accept-receive-count", f"{n} receives from {ST[pre_cs]}")
        if ns != 1 or srv.sent[0]["type"] != "websocket.accept" or pre_as != 0:
            raise Fail("accept-forward")
    elif call in ("send_text", "send_bytes", "raw_send"):
        if n or ns != 1 or pre_as != 1 or srv.sent[0]["type"] != "websocket.send":
            raise Fail("send-contract")
        want = args["bytes"] if call == "send_bytes" else args["text"]
        got = srv.sent[0].get("bytes" if call == "send_bytes" else "text")
        if got is not want:
            raise Fail("send-payload-altered")
    elif call in ("close", "close_code", "raw_close"):
        if n:
            raise Fail("close-issued-receive")
        if pre_as == 2:
            if call == "raw_close" or ns:
                raise Fail("close-not-idempotent", f"forwarded {ns} after close")
        else:
            if ns != 1 or srv.sent[0]["type"] != "websocket.close":
                raise Fail("close-forward")
            if call == "close_code" and srv.sent[0].get("code") is not args["code"]:
                raise Fail("close-code-altered")
    elif call == "raw_accept":
        if n or ns != 1 or pre_as != 0:
            raise Fail("raw-accept-contract")
    elif call == "receive":
        if n != 1 or ns or val is not srv.delivered[0] and val != srv.delivered[0]:
            raise Fail("receive-contract")
    elif call in ("receive_text", "receive_bytes"):
        if n != 1 or ns or pre_as != 1:
            raise Fail("receive-typed-contract")
        k = "text" if call == "receive_text" else "bytes"
        if val is not srv.delivered[0][k]:
            raise Fail("frame-altered-or-reordered")
    elif call in ("iter_text", "iter_bytes"):
        k = "text" if call == "iter_text" else "bytes"
        frames = [m[k] for m in srv.delivered if m["type"] == "websocket.receive"]
        if len(val) != len(frames) or any(x is not y for x, y in zip(val, frames)):
            raise Fail("iter-frames-lost-duplicated-or-reordered")
        if srv.delivered[-1]["type"] != "websocket.disconnect":
            raise Fail("iter-ended-without-disconnect")
    return "forwarded" if ns else "returned"


def reach_prestate(cs: int, as_: int, srv_events_prefix: List[str]):
    """Concrete public-API call list that reaches (cs, as_) from a fresh WebSocket."""
    hist = []
    if cs >= 1:
        hist.append(("receive", "websocket.connect"))
    if cs == 2:
        hist.append(("receive", "websocket.disconnect"))
    if as_ == 1:
        hist.append(("raw_accept", None))
    elif as_ == 2:
        hist.append(("raw_close", None))
    return hist


def concrete_history(cs: int, as_: int, call: str, evs: List[int], empties=None) -> Optional[str]:
    """Replay on concrete values through the public API only. Returns failure description or None."""
    pre = reach_prestate(cs, as_, [])
    npre = len([1 for c, ev in pre if c == "receive"])
    script = [EVENTS.index(ev) for c, ev in pre if c == "receive"] + list(evs) + [2]
    shifted = {int(k) + npre: v for k, v in (empties or {}).items()}  # the step family numbers frames from the step's own first event
    payloads = [cpayload(i, k, shifted) for i, k in enumerate(script)]
    srv = Server(script, payloads)
    ws = WebSocket({"type": "websocket", "headers": []}, srv.receive, srv.send)
    for c, _ in pre:
        k, v = do_call(ws, c, "x", b"x", 1000)
        if k == "raise":
            return f"history step {c} raised {v!r} (pre-state unreachable?)"
    if (IDX[ws.client_state], IDX[ws.application_state]) != (cs, as_):
        return None  # cannot reach: not a finding
    srv.sent.clear()
    srv.delivered.clear()
    args = {"text": "hello", "bytes": b"hello", "code": 4001}
    try:
        out = do_call(ws, call, args["text"], args["bytes"], args["code"])
        monitor(as_, cs, srv, ws, call, out, args, list(evs) + [2])
    except Fail as f:
        return f"{f.klass}: {f.detail}"
    return None


def job_step(job) -> report.JobResult:
    res = report.JobResult.new(job["name"])
    twin = job.get("twin", False)
    eng = Engine()
    call = job["call"]

    def fn():
        e = cur()
        cs = e.choose(3, "cs")
        as_ = e.choose(3, "as")
        ev = [e.choose(3, "ev0"), e.choose(3, "ev1")]
        srv = Server(ev + [2], [payload(i, k) for i, k in enumerate(ev + [2])])
        ws = WebSocket({"type": "websocket", "headers": []}, srv.receive, srv.send)
        ws.client_state, ws.application_state = ST[cs], ST[as_]
        args = {"text": SStr.fresh(1, "at", 0, 0x10FFFF), "bytes": SBytes.fresh(1, "ab", 0, 255), "code": e.fresh("ac", 1000, 4999)}
        e.path_notes.update(cs=cs, as_=as_, ev=ev)
        out = do_call(ws, call, args["text"], args["bytes"], args["code"])
        if twin:
            raise Fail("twin-assert-false")
        return monitor(as_, cs, srv, ws, call, out, args, ev + [2])

    def on_path(e, r):
        kind, v = r
        n = e.path_notes
        if kind == "exc":
            klass = v.klass if isinstance(v, Fail) else f"harness-exception:{type(v).__name__}"
            detail = v.detail if isinstance(v, Fail) else repr(v)
            cp = concrete_history(n["cs"], n["as_"], call, n["ev"], n.get("empty_frames"))
            res.violation(f"C11/{call}/{klass}", {"client_state": ST[n["cs"]].name, "application_state": ST[n["as_"]].name, "call": call,
                                               "server_events": [EVENTS[i] for i in n["ev"]], "empty_frames": {str(k): v for k, v in n.get("empty_frames", {}).items()},
                                               "history": reach_prestate(n["cs"], n["as_"], []) + [(call, None)]},
                          f"{klass} {detail}; concrete public-API history: {cp}", (cp is not None) or twin)
            return
        res.kind(v)
        cp = concrete_history(n["cs"], n["as_"], call, n["ev"], n.get("empty_frames"))
        if cp is not None:
            res["harness_errors"].append(f"symbolic step holds but concrete history fails: {n} {call}: {cp}")
        res["validated"] += 1
        res.sample({"pre": [ST[n["cs"]].name, ST[n["as_"]].name], "call": call, "events": [EVENTS[i] for i in n["ev"]], "outcome": v}, limit=2)

    eng.explore(fn, on_path)
    res.absorb_engine(eng)
    return res


def job_seq(job) -> report.JobResult:
    """Histories from the initial state."""
    res = report.JobResult.new(job["name"])
    twin = job.get("twin", False)
    eng = Engine(budget_s=job.get("budget", 1200))
    ncalls, nframes, first = job["ncalls"], job["nframes"], job["first"]
    alphabet = job["alphabet"]
    FULL_SHAPE_FRAMES[0] = 1 if ncalls >= 4 else 99

    def fn():
        e = cur()
        k = e.choose(nframes + 1, "nframes")
        bad = e.choose(2, "badfirst") if job.get("bad_server") else 0
        script = ([1] if bad else [0]) + [1] * k + [2]
        srv = Server(script, [payload(i, k) for i, k in enumerate(script)])
        ws = WebSocket({"type": "websocket", "headers": []}, srv.receive, srv.send)
        trace = []
        got_text: List[Any] = []
        all_sent: List[Dict[str, Any]] = []
        for step in range(ncalls):
            c = alphabet[first] if step == 0 else alphabet[e.choose(len(alphabet), f"call{step}")]
            cs, as_ = IDX[ws.client_state], IDX[ws.application_state]
            srv.sent, srv.delivered = [], []
            args = {"text": SStr.fresh(1, f"at{step}", 0, 0x10FFFF), "bytes": SBytes.fresh(1, f"ab{step}", 0, 255), "code": e.fresh(f"ac{step}", 1000, 4999)}
            trace.append(c)
            e.path_notes["trace"] = list(trace)
            e.path_notes["script"] = script
            try:
                out = do_call(ws, c, args["text"], args["bytes"], args["code"])
            except Fail as f:
                if f.klass == "receive-beyond-script":
                    # the wrapper asked the server for an event after the disconnect was delivered
                    raise Fail("receive-after-disconnect", f"trace {trace}")
                raise
            monitor(as_, cs, srv, ws, c, out, args, script[srv.n - len(srv.delivered):])
            all_sent.extend(srv.sent)
            if out[0] == "ret" and c == "receive_text":
                got_text.append(out[1])
            if out[0] == "ret" and c == "iter_text":
                got_text.extend(out[1])
        # whole-history legality of forwarded events
        a = 0
        for m in all_sent:
            t = m["type"]
            ok = (a == 0 and t in ("websocket.accept", "websocket.close")) or (a == 1 and t in ("websocket.send", "websocket.close"))
            if not ok:
                raise Fail("illegal-forward-sequence", str([x["type"] for x in all_sent]))
            a = 2 if t == "websocket.close" else 1
        if twin:
            raise Fail("twin-assert-false")
        return "forwarded" if all_sent else "returned"

    def on_path(e, r):
        kind, v = r
        n = e.path_notes
        if kind == "exc":
            klass = v.klass if isinstance(v, Fail) else f"harness-exception:{type(v).__name__}"
            detail = v.detail if isinstance(v, Fail) else repr(v)
            cp = concrete_seq(n.get("trace", []), n.get("script", []), n.get("empty_frames"))
            res.violation(f"C11/seq/{klass}", {"calls": n.get("trace"), "server_script": [EVENTS[i] for i in n.get("script", [])],
                                               "empty_frames": {str(k): v for k, v in n.get("empty_frames", {}).items()}},
                          f"{klass} {detail}; concrete: {cp}", (cp is not None) or twin)
            return
        res.kind(v)
        if res["validated"] < 300:
            cp = concrete_seq(n.get("trace", []), n.get("script", []), n.get("empty_frames"))
            if cp is not None:
                res["harness_errors"].append(f"symbolic history holds but concrete fails: {n}: {cp}")
            res["validated"] += 1
        res.sample({"calls": n.get("trace"), "server_script": [EVENTS[i] for i in n.get("script", [])]}, limit=2)

    eng.explore(fn, on_path)
    res.absorb_engine(eng)
    return res


def concrete_seq(trace: List[str], script: List[int], empties=None) -> Optional[str]:
    payloads = [cpayload(i, k, empties) for i, k in enumerate(script)]
    srv = Server(list(script), payloads)
    ws = WebSocket({"type": "websocket", "headers": []}, srv.receive, srv.send)
    all_sent = []
    try:
        for c in trace:
            cs, as_ = IDX[ws.client_state], IDX[ws.application_state]
            srv.sent, srv.delivered = [], []
            args = {"text": "hello", "bytes": b"hello", "code": 4001}
            try:
                out = do_call(ws, c, args["text"], args["bytes"], args["code"])
            except Fail as f:
                if f.klass == "receive-beyond-script":
                    return f"receive-after-disconnect at {c}"
                raise
            monitor(as_, cs, srv, ws, c, out, args, script[srv.n - len(srv.delivered):])
            all_sent.extend(srv.sent)
    except Fail as f:
        return f"{f.klass}: {f.detail}"
    a = 0
    for m in all_sent:
        t = m["type"]
        ok = (a == 0 and t in ("websocket.accept", "websocket.close")) or (a == 1 and t in ("websocket.send", "websocket.close"))
        if not ok:
            return "illegal-forward-sequence"
        a = 2 if t == "websocket.close" else 1
    return None


def job_denial(job) -> report.JobResult:
    """WebsocketDenialResponse: without the extension exactly one websocket.close; with it the HTTP
    response events are relayed under the websocket.http.response.* names, same status / body."""
    import baize.asgi.responses as AR
    res = report.JobResult.new(job["name"])
    eng = Engine()
    status_v = z3.Int("status")
    eng.solver.add(status_v >= 100, status_v <= 599)

    def fn():
        e = cur()
        ext_kind = e.choose(5, "ext")  # 0 no 'extensions' key, 1 empty dict, 2 other extensions only, 3 the denial extension, 4 denial + others
        ext = ext_kind >= 3
        has_resp = e.choose(2, "resp")
        e.path_notes.update(extensions=ext_kind, response=has_resp)
        body = SBytes.fresh(2, "body", 0, 255)
        resp = AR.PlainTextResponse(body, SInt(status_v)) if has_resp else None
        sent = []

        async def send(m):
            sent.append(m)

        async def receive():
            return {"type": "websocket.disconnect"}
        scope = {"type": "websocket", "headers": []}
        if ext_kind:
            scope["extensions"] = [None, {}, {"tls": {}, "http.response.zerocopysend": {}}, {"websocket.http.response": {}},
                                   {"tls": {}, "websocket.http.response": {}}][ext_kind]
        drive(WebsocketDenialResponse(resp)(scope, receive, send))
        if ext and has_resp:
            if [m["type"] for m in sent] != ["websocket.http.response.start", "websocket.http.response.body"]:
                raise Fail("denial-event-sequence", str([m["type"] for m in sent]))
            if sent[0]["status"].e is not status_v and not z3.eq(sent[0]["status"].e, status_v):
                raise Fail("denial-status-altered")
            if sent[1]["body"] is not body or sent[1].get("more_body"):
                raise Fail("denial-body-altered")
            return "forwarded"
        if [m["type"] for m in sent] != ["websocket.close"]:
            raise Fail("denial-close", str(sent))
        return "forwarded"

    def on_path(e, r):
        kind, v = r
        if kind == "exc":
            klass = v.klass if isinstance(v, Fail) else f"exception:{type(v).__name__}"
            wit = {"note": "WebsocketDenialResponse", **{k_: v_ for k_, v_ in e.path_notes.items() if k_ in ("extensions", "response")}}
            cp = concrete_denial(wit)
            res.violation(f"C11/denial/{klass}", wit, f"{v!r}; concrete: {cp}", cp is not None)
            return
        res.kind(v)
        res["validated"] += 0

    eng.explore(fn, on_path)
    res.absorb_engine(eng)
    return res


def concrete_denial(w) -> Optional[str]:
    """the same denial with a concrete status / body on the real classes"""
    import asyncio
    import baize.asgi.responses as AR
    prev = Engine.cur
    Engine.cur = None
    try:
        k = w.get("extensions", 0)
        scope = {"type": "websocket", "headers": []}
        if k:
            scope["extensions"] = [None, {}, {"tls": {}, "http.response.zerocopysend": {}}, {"websocket.http.response": {}},
                                   {"tls": {}, "websocket.http.response": {}}][k]
        resp = AR.PlainTextResponse(b"no", 403) if w.get("response") else None
        sent = []

        async def send(m):
            sent.append(m)

        async def receive():
            return {"type": "websocket.disconnect"}
        asyncio.run(WebsocketDenialResponse(resp)(scope, receive, send))
        types = [m["type"] for m in sent]
        if k >= 3 and w.get("response"):
            if types != ["websocket.http.response.start", "websocket.http.response.body"] or sent[0]["status"] != 403 or sent[1]["body"] != b"no":
                return f"forwarded {types}"
        elif types != ["websocket.close"]:
            return f"forwarded {types} although the server does not offer the denial extension (or there is no response)"
        return None
    except Exception as ex:  # noqa: BLE001
        return f"exception {type(ex).__name__}: {ex}"
    finally:
        Engine.cur = prev


# ------------------------------------------------------------------ two tasks sharing one wrapper (handler + watchdog), suspending server
TWO_TASK_PROGRAMS = {
    # name: (calls of task A, calls of task B); B starts after a symbolic offset
    "accept-send|close": (["accept", "send_text"], ["close_code"]),
    "accept-close|send": (["accept", "close"], ["send_text"]),
    "accept-close|close": (["accept", "close"], ["close"]),
    "accept|close-send": (["accept"], ["close_code", "send_text"]),
    "accept-send-close|send-close": (["accept", "send_text", "close"], ["send_bytes", "close"]),
}


def overlap_scenario(prog: str, V) -> Dict[str, Any]:
    """V: connect_delay, send_delay, offset (ints or SInt ticks).  Returns the events in the order the server's send() was ENTERED."""
    import asyncio
    from engine.vloop import VLoop
    a_calls, b_calls = TWO_TASK_PROGRAMS[prog]
    log: Dict[str, Any] = {"forwarded": [], "outcomes": []}

    async def nap(d):
        if not isinstance(d, int) or d > 0:
            if d > 0:
                await asyncio.sleep(d)

    state = {"connected": False}

    async def receive():
        if not state["connected"]:
            await nap(V["connect_delay"])
            state["connected"] = True
            return {"type": "websocket.connect"}
        await asyncio.get_running_loop().create_future()  # the client stays silent

    async def send(m):
        log["forwarded"].append(m["type"])
        await nap(V["send_delay"])  # flow control: the server's send really suspends

    ws = WebSocket({"type": "websocket", "path": "/", "headers": [], "subprotocols": []}, receive, send)

    async def run(tag, calls, start):
        await nap(start)
        for c in calls:
            try:
                if c == "accept":
                    await ws.accept()
                elif c == "send_text":
                    await ws.send_text("x")
                elif c == "send_bytes":
                    await ws.send_bytes(b"y")
                elif c == "close":
                    await ws.close()
                elif c == "close_code":
                    await ws.close(1008, "policy")
                log["outcomes"].append((tag, c, "ok"))
            except (RuntimeError, AssertionError, WebSocketDisconnect) as ex:  # the wrapper rejects illegal calls with RuntimeError or assert
                log["outcomes"].append((tag, c, type(ex).__name__))

    async def main():
        await asyncio.gather(run("A", a_calls, 0), run("B", b_calls, V["offset"]))
        log["final_state"] = ws.application_state
    loop = VLoop()
    try:
        loop.run_until_complete(main())
    finally:
        for t in asyncio.all_tasks(loop):
            t.cancel()
        try:
            loop.run_until_complete(asyncio.sleep(0))
        except BaseException:  # noqa: BLE001
            pass
        loop.close()
    return log


def overlap_verdict(log) -> str:
    fw = log["forwarded"]
    if fw and fw[0] not in ("websocket.accept", "websocket.close"):
        raise Fail("data-before-accept", str(fw))
    if fw.count("websocket.accept") > 1:
        raise Fail("accept-forwarded-twice", str(fw))
    if "websocket.close" in fw:
        k = fw.index("websocket.close")
        if fw[k + 1:]:
            raise Fail("event-forwarded-after-close", str(fw))
    if "websocket.accept" in fw and any(x == "websocket.send" for x in fw[:fw.index("websocket.accept")]):
        raise Fail("data-before-accept", str(fw))
    if "websocket.close" in fw and log.get("final_state") != WebSocketState.DISCONNECTED:
        raise Fail("state-moved-back-after-close", str(log.get("final_state")))
    return "overlap"


def job_overlap(job) -> report.JobResult:
    import sys
    sys.unraisablehook = lambda *a: None
    res = report.JobResult.new(job["name"])
    twin = job.get("twin", False)
    eng = Engine(budget_s=600)
    names = ["connect_delay", "send_delay", "offset"]
    Z = {k: z3.Int(k) for k in names}
    for v in Z.values():
        eng.solver.add(v >= 0, v <= 12)

    def fn():
        log = overlap_scenario(job["prog"], {k: SInt(v) for k, v in Z.items()})
        if twin:
            raise Fail("twin-assert-false")
        return overlap_verdict(log)

    def on_path(e, r):
        kind, v = r
        klass = detail = None
        if kind == "exc":
            klass, detail = (v.klass, v.detail) if isinstance(v, Fail) else (f"exception:{type(v).__name__}", repr(v))
        e.last_sat = False
        m = e.witness()
        cv = {k: m.eval(z, True).as_long() for k, z in Z.items()}
        wit = {"two_tasks": job["prog"], **cv}
        cp = concrete_overlap(wit)
        if klass is not None:
            res.violation(f"C11/two-tasks/{klass.split(':')[0]}", wit, f"{klass} {detail}; concrete schedule: {cp}", (cp is not None) or twin)
            return
        res.kind("overlap")
        if cp is not None:
            res["harness_errors"].append(f"symbolic schedule holds but its concrete instance fails: {wit}: {cp}")
        res["validated"] += 1
        res.sample(wit, limit=1)
    eng.explore(fn, on_path)
    res.absorb_engine(eng)
    return res


def concrete_overlap(w) -> Optional[str]:
    prev = Engine.cur
    Engine.cur = None
    try:
        overlap_verdict(overlap_scenario(w["two_tasks"], {k: w[k] for k in ("connect_delay", "send_delay", "offset")}))
        return None
    except Fail as f:
        return f"{f.klass}: {f.detail}"
    except Exception as ex:  # noqa: BLE001
        return f"exception {type(ex).__name__}: {ex}"
    finally:
        Engine.cur = prev


# ------------------------------------------------------------------ an iterator suspended at a yield, resumed after the application closed
def iter_resume_scenario(which: str, frames_before_close: int, close_kind: int):
    srv = Server([0, 1, 1, 1, 2], [cpayload(i, k) for i, k in enumerate([0, 1, 1, 1, 2])])
    ws = WebSocket({"type": "websocket", "path": "/", "headers": [], "subprotocols": []}, srv.receive, srv.send)
    drive(ws.accept())
    it = ws.iter_text() if which == "text" else ws.iter_bytes()
    got = []
    for _ in range(frames_before_close):
        got.append(drive(it.__anext__()))
    if close_kind == 0:
        drive(ws.close())
    else:
        drive(ws.send({"type": "websocket.close", "code": 1001}))
    receives_before = srv.n
    try:
        nxt = drive(it.__anext__())
        outcome = ("returned", nxt)
    except StopAsyncIteration:
        outcome = ("ended", None)
    except Fail:
        raise
    except Exception as ex:  # noqa: BLE001
        outcome = ("raised", type(ex).__name__)
    return outcome, srv.n - receives_before, [m["type"] for m in srv.sent]


def iter_resume_verdict(outcome, extra_receives, forwarded):
    if outcome[0] == "returned":
        raise Fail("read-after-close-returned-a-frame", repr(outcome[1]))
    if extra_receives:
        raise Fail("receive-issued-after-the-application-closed", f"{extra_receives} receive(s)")
    if forwarded != ["websocket.accept", "websocket.close"]:
        raise Fail("illegal-forward", str(forwarded))


def job_iter_resume(job) -> report.JobResult:
    res = report.JobResult.new(job["name"])
    twin = job.get("twin", False)
    eng = Engine(budget_s=300)

    def fn():
        e = cur()
        k = e.choose(3, "frames_before_close")
        ck = e.choose(2, "close_kind")
        e.path_notes.update(frames_before_close=k, close_kind=ck)
        iter_resume_verdict(*iter_resume_scenario(job["which"], k, ck))
        if twin:
            raise Fail("twin-assert-false")
        return "raised"

    def on_path(e, r):
        kind, v = r
        wit = {"iterator": job["which"], "frames_before_close": e.path_notes.get("frames_before_close"), "close_kind": e.path_notes.get("close_kind")}
        if kind == "exc":
            klass, detail = (v.klass, v.detail) if isinstance(v, Fail) else (f"exception:{type(v).__name__}", repr(v))
            cp = concrete_iter_resume(wit)
            res.violation(f"C11/iterator-resumed-after-close/{klass.split(':')[0]}", wit, f"{klass} {detail}; concrete: {cp}", (cp is not None) or twin)
            return
        res.kind("raised")
        res["validated"] += 1
        res.sample(wit, limit=1)
    eng.explore(fn, on_path)
    res.absorb_engine(eng)
    return res


def concrete_iter_resume(w) -> Optional[str]:
    prev = Engine.cur
    Engine.cur = None
    try:
        iter_resume_verdict(*iter_resume_scenario(w["iterator"], w["frames_before_close"], w["close_kind"]))
        return None
    except Fail as f:
        return f"{f.klass}: {f.detail}"
    finally:
        Engine.cur = prev


# ------------------------------------------------------------------ the websocket_session entry point with views that fail
SESSION_VIEWS = {
    # what the view does before it raises ValueError("view failed") -- or returns, for the last one
    "raise-before-accept": [],
    "accept-raise": ["accept"],
    "accept-close-raise": ["accept", "close"],
    "accept-close-stray-send": ["accept", "close", "send_text"],   # the wrapper's own RuntimeError escapes the view
    "reject-raise": ["close_code"],
    "accept-receive-raise": ["accept", "receive_text"],
    "accept-close-return": ["accept", "close", "return"],
}


def session_scenario(view_name: str):
    import baize.asgi.shortcut as SC
    steps = SESSION_VIEWS[view_name]
    srv = Server([0, 1, 2], [cpayload(i, k) for i, k in enumerate([0, 1, 2])])

    async def view(ws):
        for st in steps:
            if st == "accept":
                await ws.accept()
            elif st == "close":
                await ws.close()
            elif st == "close_code":
                await ws.close(1008, "no")
            elif st == "send_text":
                await ws.send_text("late")
            elif st == "receive_text":
                await ws.receive_text()
            elif st == "return":
                return
        raise ValueError("view failed")
    app = SC.websocket_session(view)
    try:
        drive(app({"type": "websocket", "path": "/", "headers": [], "subprotocols": []}, srv.receive, srv.send))
        outcome = "returned"
    except Fail:
        raise
    except Exception as ex:  # noqa: BLE001
        outcome = type(ex).__name__
    return outcome, [m["type"] for m in srv.sent]


def session_verdict(outcome, fw):
    if fw and fw[0] not in ("websocket.accept", "websocket.close"):
        raise Fail("data-before-accept", str(fw))
    if fw.count("websocket.close") > 1:
        raise Fail("close-forwarded-twice", str(fw))
    if "websocket.close" in fw and fw[fw.index("websocket.close") + 1:]:
        raise Fail("event-forwarded-after-close", str(fw))
    if fw.count("websocket.accept") > 1:
        raise Fail("accept-forwarded-twice", str(fw))


def job_session(job) -> report.JobResult:
    res = report.JobResult.new(job["name"])
    twin = job.get("twin", False)
    eng = Engine(budget_s=300)
    names = sorted(SESSION_VIEWS)

    def fn():
        e = cur()
        v = names[e.choose(len(names), "view")]
        e.path_notes["view"] = v
        session_verdict(*session_scenario(v))
        if twin:
            raise Fail("twin-assert-false")
        return "forwarded"

    def on_path(e, r):
        kind, v = r
        wit = {"session_view": e.path_notes.get("view")}
        if kind == "exc":
            klass, detail = (v.klass, v.detail) if isinstance(v, Fail) else (f"exception:{type(v).__name__}", repr(v))
            cp = concrete_session(wit)
            res.violation(f"C11/websocket_session/{klass.split(':')[0]}", wit, f"{klass} {detail}; concrete: {cp}", (cp is not None) or twin)
            return
        res.kind("forwarded")
        res["validated"] += 1
        res.sample(wit, limit=1)
    eng.explore(fn, on_path)
    res.absorb_engine(eng)
    return res


def concrete_session(w) -> Optional[str]:
    prev = Engine.cur
    Engine.cur = None
    try:
        session_verdict(*session_scenario(w["session_view"]))
        return None
    except Fail as f:
        return f"{f.klass}: {f.detail}"
    finally:
        Engine.cur = prev


def jobs(tier: str):
    b = META["bounds"][tier]
    out = [dict(name=f"step/{c}", kind="step", call=c) for c in CALLS]
    out.append(dict(name="websocket_session/failing-views", kind="session"))
    for which in ("text", "bytes"):
        out.append(dict(name=f"iter-{which}/resumed-after-close", kind="iter-resume", which=which))
    for prog in TWO_TASK_PROGRAMS:
        out.append(dict(name=f"two-tasks/{prog}", kind="overlap", prog=prog, weight=30))
    out.append(dict(name="twin/step/accept", kind="step", call="accept", twin=True))
    alphabet = ["accept", "receive", "receive_text", "receive_bytes", "send_text", "close", "raw_accept", "raw_close", "raw_send", "iter_text", "send_bytes"]
    for first in range(len(alphabet)):
        out.append(dict(name=f"seq/first={alphabet[first]}", kind="seq", ncalls=b["seq_calls_max"], nframes=b["frames_max"], first=first,
                        alphabet=alphabet, weight=50))
    out.append(dict(name="twin/seq", kind="seq", ncalls=1, nframes=1, first=0, alphabet=alphabet, twin=True))
    out.append(dict(name="denial", kind="denial"))
    return out


def run_job(job):
    return {"step": job_step, "seq": job_seq, "denial": job_denial, "overlap": job_overlap, "iter-resume": job_iter_resume, "session": job_session}[job["kind"]](job)


def replay(rec) -> int:
    w = rec["witness"]
    if "session_view" in w:
        cp = concrete_session(w)
        print(f"replay C11: {w} -> {cp}")
        return 1 if cp else 0
    if "iterator" in w:
        cp = concrete_iter_resume(w)
        print(f"replay C11: {w} -> {cp}")
        return 1 if cp else 0
    if "two_tasks" in w:
        cp = concrete_overlap(w)
        print(f"replay C11: {w} -> {cp}")
        return 1 if cp else 0
    if "calls" in w:
        cp = concrete_seq(w["calls"], [EVENTS.index(x) for x in w["server_script"]], w.get("empty_frames"))
    else:
        cp = concrete_history([s.name for s in ST].index(w["client_state"]), [s.name for s in ST].index(w["application_state"]), w["call"],
                              [EVENTS.index(x) for x in w["server_events"]], w.get("empty_frames"))
    print(f"replay C11: {w} -> {cp}")
    return 1 if cp else 0
