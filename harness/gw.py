"""Gateway runner shared by C04 / C05 / C20: runs a WSGI or ASGI application against a scripted server,
records the raw protocol events, checks them with protocol monitors, and normalises them to
(status, header multiset, body) for differential comparison.  Values may be proxies (SInt / SStr / SBytes);
every check on them is a solver query."""
from __future__ import annotations

import asyncio
from typing import Any, Callable, Dict, List, Optional, Tuple

import z3

from engine.forksym import Engine, SInt, term_of
from engine.symseq import SBytes, SSeq, SStr, _items_of
from engine.vloop import VLoop, drive

HOP_BY_HOP = {"connection", "keep-alive", "proxy-authenticate", "proxy-authorization", "te", "trailers", "transfer-encoding", "upgrade"}


class Fail(Exception):
    def __init__(self, klass, detail=""):
        self.klass, self.detail = klass, detail


class ClientGone(Exception):
    """raised by the scripted server's send() when the client has disappeared"""


# ------------------------------------------------------------------ WSGI
def run_wsgi(app, environ: Dict[str, Any], close_after: Optional[int] = None):
    """returns (events, completed). events: ('start', status, headers, exc_info) | ('body', chunk) | ('raise', exc)"""
    ev: List[Tuple] = []

    def start_response(status, headers, exc_info=None):
        ev.append(("start", status, list(headers), exc_info))
        return lambda b: ev.append(("write", b))
    it = None
    completed = False
    try:
        it = app(environ, start_response)
        n = 0
        for chunk in it:
            if close_after is not None and n >= close_after:
                break
            ev.append(("body", chunk))
            n += 1
        else:
            completed = True
    except Exception as ex:  # noqa: BLE001
        ev.append(("raise", ex))
    finally:
        if it is not None and hasattr(it, "close"):
            try:
                it.close()
            except Exception as ex:  # noqa: BLE001
                ev.append(("raise-on-close", ex))
    return ev, completed


def is_text(x) -> bool:
    return isinstance(x, (str, SStr))


def is_bytes(x) -> bool:
    return isinstance(x, (bytes, SBytes))


def _any(e: Engine, items, pred_term, pred_conc) -> bool:
    ts = []
    for c in items:
        if isinstance(c, SInt):
            ts.append(pred_term(c.e))
        elif pred_conc(c):
            return True
    return bool(ts) and e.check(z3.Or(ts))


def text_items(x) -> List[Any]:
    """items of a real str possibly containing engine placeholders, or of an SStr"""
    if isinstance(x, SSeq):
        return list(x.items)
    e = Engine.cur
    if e is None or not (e.chars or e.tokens):
        return [ord(c) for c in x]
    out: List[Any] = []
    for c in x:
        if c in e.chars:
            out.append(SInt(e.chars[c]))
        else:
            out.append(ord(c))
    return out


def check_wsgi(e: Engine, ev, completed: bool, head: bool = False) -> None:
    starts = [x for x in ev if x[0] == "start"]
    first_body = next((i for i, x in enumerate(ev) if x[0] in ("body", "write") and (_is_slice(x[1]) or len(x[1]))), None)
    first_start = next((i for i, x in enumerate(ev) if x[0] == "start"), None)
    if len(starts) > 1 and not all(s[3] for s in starts[1:]):
        raise Fail("wsgi-start_response-twice")
    if first_body is not None and (first_start is None or first_start > first_body):
        raise Fail("wsgi-body-before-start_response")
    if completed and not starts:
        raise Fail("wsgi-no-start_response")
    for x in ev:
        if x[0] == "body" and not is_bytes(x[1]) and not _is_slice(x[1]):
            raise Fail("wsgi-non-bytes-yielded", type(x[1]).__name__)
    for _, status, headers, _ in starts:
        st = text_items(status) if is_text(status) else None
        if st is None:
            raise Fail("wsgi-status-not-str", type(status).__name__)
        if len(st) < 5 or st[3] != 32 or any(isinstance(c, SInt) for c in st[:3]) and False:
            raise Fail("wsgi-status-line-shape", repr(status))
        for c in st[:3]:
            if _any(e, [c], lambda t: z3.Or(t < 48, t > 57), lambda v: not 48 <= v <= 57) and not _is_digit_token(e, status):
                raise Fail("wsgi-status-line-shape", repr(status))
        for pair in headers:
            if not (isinstance(pair, tuple) and len(pair) == 2 and is_text(pair[0]) and is_text(pair[1])):
                raise Fail("wsgi-header-not-native-str-pair", repr(pair)[:80])
            k, v = pair
            ki, vi = text_items(k), text_items(v)
            if isinstance(k, str) and k.lower() in HOP_BY_HOP:
                raise Fail("wsgi-hop-by-hop-header", k)
            if _any(e, ki + vi, lambda t: t > 255, lambda c: c > 255 and not _is_token_cp(e, c)):
                raise Fail("wsgi-header-not-latin-1", f"{k!r}")
            if _any(e, ki + vi, lambda t: z3.Or(t < 32, t == 127), lambda c: (c < 32 or c == 127) and not _is_token_cp(e, c)):
                raise Fail("wsgi-header-control-character", f"{k!r}")


def _is_token_cp(e: Engine, c: int) -> bool:
    try:
        return e.is_token_char(chr(c)) and any(chr(c) in t for t in e.tokens)
    except ValueError:
        return False


def _is_digit_token(e: Engine, status) -> bool:
    return isinstance(status, str) and e.term_of_text(status[:3]) is not None


def norm_wsgi(ev):
    start = next(x for x in ev if x[0] == "start")
    starts = [x for x in ev if x[0] == "start"]
    start = starts[-1]
    status = start[1]
    code = status[:3] if isinstance(status, str) else status
    headers = [(k.lower() if isinstance(k, str) else k, v) for k, v in start[2]]
    body: List[Any] = []
    for x in ev:
        if x[0] in ("body", "write"):
            body.extend([x[1]] if (isinstance(x[1], tuple) or _is_slice(x[1])) else _items_of(x[1]))
    return code, headers, body


# ------------------------------------------------------------------ ASGI
def run_asgi(app, scope: Dict[str, Any], receive_script: Optional[List[Dict[str, Any]]] = None, send_fault_at: Optional[int] = None,
             use_loop: bool = False, receive_raises: bool = False):
    """returns (events, completed). events: ('send', message) | ('raise', exc)"""
    ev: List[Tuple] = []
    script = list(receive_script or [])
    state = {"sends": 0}

    async def receive():
        if receive_raises:  # e.g. baize.asgi.empty_receive, or a server whose channel is already closed for reading
            raise NotImplementedError("this receive channel cannot be read")
        if script:
            return script.pop(0)
        if use_loop:
            await asyncio.get_running_loop().create_future()
        return {"type": "http.disconnect"}

    async def send(m):
        if send_fault_at is not None and state["sends"] >= send_fault_at:
            raise ClientGone("client went away")
        state["sends"] += 1
        ev.append(("send", m))

    async def main():
        await app(scope, receive, send)
    completed = False
    try:
        if use_loop:
            loop = VLoop()
            try:
                loop.run_until_complete(main())
            finally:
                for t in asyncio.all_tasks(loop):
                    t.cancel()
                try:
                    loop.run_until_complete(asyncio.sleep(0))
                except BaseException:  # noqa: BLE001
                    pass
                loop.close()
        else:
            drive(main())
        completed = True
    except ClientGone as ex:
        ev.append(("raise", ex))
    except Exception as ex:  # noqa: BLE001
        ev.append(("raise", ex))
    return ev, completed


def check_asgi(e: Engine, ev, completed: bool) -> None:
    msgs = [x[1] for x in ev if x[0] == "send"]
    if completed and not msgs:
        raise Fail("asgi-no-events")
    seen_start = False
    finished = False
    bodies = 0
    for m in msgs:
        t = m.get("type")
        if finished:
            raise Fail("asgi-event-after-final-body", str(t))
        if t == "http.response.start":
            if seen_start:
                raise Fail("asgi-second-start-event")
            seen_start = True
            st = m.get("status")
            if not isinstance(st, (int, SInt)) or isinstance(st, bool):
                raise Fail("asgi-status-not-int", type(st).__name__)
            for pair in m.get("headers", []):
                if not (isinstance(pair, (tuple, list)) and len(pair) == 2 and is_bytes(pair[0]) and is_bytes(pair[1])):
                    raise Fail("asgi-header-not-bytes-pair", repr(pair)[:80])
                k = pair[0]
                ki = _items_of(k)
                if _any(e, ki, lambda t_: z3.And(t_ >= 65, t_ <= 90), lambda c: 65 <= c <= 90):
                    raise Fail("asgi-header-name-not-lower-case", repr(bytes(k) if isinstance(k, bytes) else k))
        elif t in ("http.response.body", "http.response.zerocopysend"):
            if not seen_start:
                raise Fail("asgi-body-before-start")
            if t == "http.response.body" and not is_bytes(m.get("body", b"")) and not _is_slice(m.get("body")):
                raise Fail("asgi-body-not-bytes", type(m.get("body")).__name__)
            bodies += 1
            if not m.get("more_body", False):
                finished = True
        else:
            raise Fail("asgi-unknown-event-type", str(t))
    if completed:
        if not seen_start:
            raise Fail("asgi-no-start-event")
        if bodies == 0:
            raise Fail("asgi-no-body-event")
        if not finished:
            raise Fail("asgi-no-final-body-event")


def _is_slice(x) -> bool:
    return type(x).__name__ == "Slice"


def norm_asgi(ev):
    msgs = [x[1] for x in ev if x[0] == "send"]
    start = next(m for m in msgs if m["type"] == "http.response.start")
    headers = []
    for k, v in start.get("headers", []):
        kk = k.decode("latin-1") if isinstance(k, bytes) else SStr(k.items)
        vv = v.decode("latin-1") if isinstance(v, bytes) else SStr(v.items)
        headers.append((kk.lower() if isinstance(kk, str) else kk, vv))
    body: List[Any] = []
    for m in msgs:
        if m["type"] == "http.response.body":
            b = m.get("body", b"")
            body.extend(_items_of(b) if not _is_slice(b) else [b])
        elif m["type"] == "http.response.zerocopysend":
            body.append(("zc", m.get("offset"), m.get("count")))
    return start["status"], headers, body


# ------------------------------------------------------------------ comparison of normal forms
def same_items(e: Engine, a, b) -> bool:
    ai, bi = (a if isinstance(a, list) else text_items(a) if is_text(a) else _items_of(a)), (b if isinstance(b, list) else text_items(b) if is_text(b) else _items_of(b))
    if len(ai) != len(bi):
        return False
    if len(ai) > 64 and all(type(x) is int for x in ai) and all(type(y) is int for y in bi):
        return ai == bi  # fully concrete (large bodies): plain comparison
    d = []
    for x, y in zip(ai, bi):
        if _is_slice(x) or _is_slice(y) or isinstance(x, tuple) or isinstance(y, tuple):
            if type(x) is not type(y):
                return False
            continue
        tx, ty = term_of(x), term_of(y)
        if not z3.eq(tx, ty):
            d.append(tx != ty)
    return not (d and e.check(z3.Or(d)))


def same_status(e: Engine, a, b) -> bool:
    def term(s):
        if isinstance(s, (int, SInt)):
            return term_of(s)
        t = e.term_of_text(s)
        return t if t is not None else z3.IntVal(int(s))
    ta, tb = term(a), term(b)
    return z3.eq(ta, tb) or not e.check(ta != tb)


def diff_norm(e: Engine, a, b, ignore_headers=()) -> Optional[str]:
    """None if equal, else a description. a, b = (status, headers, body)."""
    if not same_status(e, a[0], b[0]):
        return f"status {a[0]!r} vs {b[0]!r}"
    ha = [(k, v) for k, v in a[1] if not (isinstance(k, str) and k in ignore_headers)]
    hb = [(k, v) for k, v in b[1] if not (isinstance(k, str) and k in ignore_headers)]
    if len(ha) != len(hb):
        return f"header count {sorted(str(k) for k, _ in ha)} vs {sorted(str(k) for k, _ in hb)}"
    used = set()
    for k, v in ha:
        hit = None
        for j, (k2, v2) in enumerate(hb):
            if j in used:
                continue
            if same_items(e, k, k2) and same_items(e, v, v2):
                hit = j
                break
        if hit is None:
            return f"header {k!r}: {v!r} has no equal counterpart"
        used.add(hit)
    if not same_items(e, a[2], b[2]):
        return f"body differs ({len(a[2])} vs {len(b[2])} items)"
    return None
