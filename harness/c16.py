"""C16 -- cookies round-trip exactly and expire when asked.

Real code run: Cookie._quote/__str__ (live _cookie_translator, live legal-key regex), BaseResponse.set_cookie /
delete_cookie / list_headers, MoreInfoFromHeaderMixin.cookies (request side: split / strip / unquote) on both
Request classes, http.cookies._unquote (stdlib, run on proxies through injected module names).

roundtrip  name: symbolic HTTP-token characters; value: symbolic characters over the FULL 0..255 domain; the
           response-side serialisation is fed back (alone, and between two other cookies) into the request-side
           parser; the mapping must return the identical value, and the wire form must be ASCII. Solver-decided.
expiry     now, expires and max_age are symbolic integers, and the process's UTC offset is a symbolic integer:
           the Expires attribute must denote now+expires as GMT for EVERY offset; Max-Age must be the number asked.
           Counterexamples are replayed in a subprocess under a concrete TZ.
"""
from __future__ import annotations

import datetime as _dt
import os
import re as _re
import subprocess
import sys
import time as _time
from http import cookies as http_cookies
from typing import Any, Dict, List, Optional

import z3

import baize.asgi.requests as AQ
import baize.asgi.responses as AR
import baize.datastructures as DS
import baize.requests as RQ
import baize.responses as R
import baize.wsgi.requests as WQ
import baize.wsgi.responses as WR
from baize.datastructures import Cookie

from engine import report
from engine.forksym import Engine, SInt, Unsupported, conc, cur, term_of
from engine.reshim import ReShim, wrap_pattern
from engine.shims import Shims, chr_shim, int_shim, nulljoin_shim
from engine.symseq import SBytes, SSeq, SStr, _items_of

from .c13 import legal_key_shim

PID = "C16"
TCHAR = [ord(c) for c in "!#$%&'*+-.^_`|~0123456789ABCDEFGHIJKLMNOPQRSTUVWXYZabcdefghijklmnopqrstuvwxyz"]

META = {
    "functions": lambda: [Cookie._quote, Cookie.__str__, R.BaseResponse.set_cookie, R.BaseResponse.delete_cookie, R.BaseResponse.list_headers,
                          RQ.MoreInfoFromHeaderMixin.cookies, WQ.HTTPConnection.headers, AQ.HTTPConnection.headers, http_cookies._unquote],
    "engines": ["E-FS (forksym): symbolic characters through the real quoting table / regex and the real request-side parser"],
    "stubs": ["baize.datastructures._cookie_is_legal_key -> same bound method of the same pattern through ReShim",
              "http.cookies._OctalPatt/_QuotePatt/int/chr/_nulljoin -> proxy-aware versions of the same objects (stdlib code itself runs)",
              "expiry: baize.responses.time.time() -> symbolic now; baize.responses.datetime -> model of the datetime module whose naive-local "
              "datetimes print wall-clock = timestamp + a SYMBOLIC UTC offset, aware/UTC ones print the timestamp itself; strftime yields one "
              "token standing for the printed instant"],
    "assumptions": ["cookie names are HTTP tokens (as the property states); values are text over code points 0..255",
                    "expiry: the process time zone is a function utcoff(instant): constant (fixed zones, -12h..+14h in 15 min steps) or two-valued "
                    "{std, std+1h} and otherwise unconstrained (DST zones); a naive local datetime prints local wall-clock time and converts "
                    "back to an instant through that function (datetime/timedelta/time stand-ins inside baize.responses)"],
    "bounds": {"quick": {"value_len_max": 3, "name_len_max": 2}, "thorough": {"value_len_max": 4, "name_len_max": 2}},
    "outside": ["longer values (beyond the stated shapes: a backslash followed by 3 symbolic characters, a character + backslash + 2)", "values beyond U+00FF", "DST zones: offsets {std, std+1h}, |expires| <= 150 days, no local-time conversion within 2 days of a transition (ambiguous / skipped wall-clock hours are not modelled)"],
    "expect_kinds": {"all": ["roundtrip", "expiry"]},
}


class Fail(Exception):
    def __init__(self, klass, detail=""):
        self.klass, self.detail = klass, detail


def rt_shims() -> Shims:
    s = Shims()
    s.add(DS, _cookie_is_legal_key=legal_key_shim()).add_compiled_regexes(DS)
    s.add(http_cookies, _OctalPatt=wrap_pattern(http_cookies._OctalPatt), _QuotePatt=wrap_pattern(http_cookies._QuotePatt),
          int=int_shim, chr=chr_shim, _nulljoin=nulljoin_shim)
    # baize.requests itself: whatever regexes it compiles at import, and int()/chr() on matched text, run on proxies too
    s.add(RQ, int=int_shim, chr=chr_shim).add_compiled_regexes(RQ)
    return s


def emitted_cookie_line(via: str, name, value):
    """the Set-Cookie text a client receives: read off the response object ('direct'), or off what the response -- called as an application, bare or
    behind one identity middleware of its own stack -- hands to the server"""
    if via == "direct":
        r = WR.Response()
        r.set_cookie(name, value)
        return [v for k, v in r.list_headers(as_bytes=False) if k == "set-cookie"]
    from . import c05 as C5
    from . import c20 as C20
    from . import gw
    iface = via.split("-")[0]
    r = (WR if iface == "wsgi" else AR).Response()
    r.set_cookie(name, value)
    app = r
    if via.endswith("middleware"):
        if iface == "wsgi":
            app = C20.WM.middleware(lambda request, next_call: next_call(request))(r)
        else:
            async def handler(request, next_call):
                return await next_call(request)
            app = C20.AM.middleware(handler)(r)
    if iface == "wsgi":
        ev, done = gw.run_wsgi(app, C5.environ("GET"))
        st, hd, body = gw.norm_wsgi(ev)
    else:
        if Engine.cur is None:  # concrete replay: a real event loop
            import asyncio
            ev = []

            async def send(m_):
                ev.append(("send", m_))

            async def receive():
                await asyncio.sleep(3600)
            asyncio.run(asyncio.wait_for(app(C5.scope("GET"), receive, send), 30))
        else:
            ev, done = gw.run_asgi(app, C5.scope("GET"), use_loop=True)
        st, hd, body = gw.norm_asgi(ev)
    return [v for k, v in hd if isinstance(k, str) and k.lower() == "set-cookie"]


def pair_items(line) -> List[Any]:
    """'name=value' part of a Set-Cookie line (before the first attribute), placeholders mapped back to terms"""
    e = cur()
    its = [SInt(e.chars[c]) if c in e.chars else ord(c) for c in line]
    # the attributes baize appends start at the first '; ' that is made of concrete characters
    for i in range(len(its) - 1):
        if its[i] == 59 and its[i + 1] == 32 and not isinstance(its[i], SInt):
            return its[:i]
    return its


def request_cookies(iface: str, header: SStr):
    if iface == "wsgi":
        req = WQ.Request({"REQUEST_METHOD": "GET", "HTTP_COOKIE": header, "QUERY_STRING": "", "wsgi.input": None})
    else:
        req = AQ.Request({"type": "http", "method": "GET", "headers": [(b"cookie", SBytes(header.items))], "path": "/", "query_string": b""})
    return req.cookies


def job_roundtrip(job) -> report.JobResult:
    res = report.JobResult.new(job["name"])
    twin = job.get("twin", False)
    ln, lv, iface, among = job["ln"], job["lv"], job["iface"], job["among"]
    eng = Engine(budget_s=1500)
    name = SStr.fresh(ln, "n", 0, 255, eng.solver)
    for c in name.items:
        eng.solver.add(z3.Or([c.e == t for t in TCHAR]))
    value = SStr.fresh(lv, "v", 0, 255, eng.solver)
    if job.get("vtemplate"):  # longer values of one shape: '*' = symbolic character, anything else literal
        it = iter(SStr.fresh(job["vtemplate"].count("*"), "v", 0, 255, eng.solver).items)
        value = SStr([next(it) if ch == "*" else ord(ch) for ch in job["vtemplate"]])
        lv = len(value.items)
    shims = rt_shims()
    via = job.get("via", "direct")
    if via != "direct":
        eng.char_alphabet = "c1"  # the line is encoded for the server: placeholders of the same encoding class as the character they stand for
        from . import c20 as C20
        have = {(m_, k_) for m_, k_, _ in shims.entries}
        shims.entries += [en for en in C20.make_shims().entries if (en[0], en[1]) not in have]
    SSeq.NORMALIZE = False
    SSeq.CONST_HASH = True

    def fn():
        lines = emitted_cookie_line(via, name, value)
        if len(lines) != 1:
            raise Fail("set-cookie-lines-reaching-the-client", f"{len(lines)} (one cookie was set)")
        line = lines[0]
        pair = pair_items(line)
        wire = list(pair)
        if among:
            wire = [ord(c) for c in "aaa=1; "] + wire + [ord(c) for c in "; zzz=2"]  # neighbour names are longer than any symbolic name
        jar = request_cookies(iface, SStr(wire))
        return pair, jar

    def on_path(e, r):
        kind, val = r
        klass = detail = None
        try:
            if kind == "exc":
                if isinstance(val, Fail):
                    raise val
                raise Fail(f"exception:{type(val).__name__}", repr(val))
            if twin:
                raise Fail("twin-assert-false")
            pair, jar = val
            non_ascii = [z3.Or(term_of(c) < 32, term_of(c) > 126) for c in pair if isinstance(c, SInt)]
            if any((not isinstance(c, SInt)) and not (32 <= c <= 126) for c in pair) or (non_ascii and e.check(z3.Or(non_ascii))):
                raise Fail("serialisation-not-ascii")
            hits = []
            for k, v in jar.items():
                ki = _items_of(k)
                if len(ki) != ln:
                    continue
                diffs = [term_of(a) != term_of(b) for a, b in zip(ki, name.items) if not z3.eq(term_of(a), term_of(b))]
                if not diffs or not e.check(z3.Or(diffs)):
                    hits.append(v)
                elif e.check(z3.Not(z3.Or(diffs))):
                    raise Fail("cookie-name-ambiguous")
            if len(hits) != 1:
                raise Fail("cookie-missing-from-mapping", f"{len(hits)} entries named like the cookie; keys: {[conc(k, e.witness()) for k in jar]}")
            vi = _items_of(hits[0])
            if len(vi) != lv:
                raise Fail("value-length-changed", f"{len(vi)} != {lv}")
            diffs = [term_of(a) != term_of(b) for a, b in zip(vi, value.items) if not z3.eq(term_of(a), term_of(b))]
            if diffs and e.check(z3.Or(diffs)):
                raise Fail("value-altered")
            if among and (len(jar) != 3):
                raise Fail("neighbour-cookies-disturbed", f"{len(jar)} cookies parsed")
        except Fail as f:
            klass, detail = f.klass, f.detail
        if klass not in ("serialisation-not-ascii", "value-altered"):
            e.last_sat = False
        m = e.witness()
        wit = {"name": conc(name, m), "value": conc(value, m), "iface": iface, "among": among, "via": via}
        with shims.off():
            cp = concrete_roundtrip(wit)
        if klass is not None:
            res.violation(f"C16/roundtrip/{klass.split(':')[0]}", wit, f"{klass} {detail}; concrete: {cp}", (cp is not None) or twin)
            return
        res.kind("roundtrip")
        if cp is not None:
            res["harness_errors"].append(f"symbolic path holds but concrete run fails: {wit!r}: {cp}")
        res["validated"] += 1
        res.sample({k_: repr(v_) for k_, v_ in wit.items()}, limit=1)

    try:
        with shims:
            eng.explore(fn, on_path)
    finally:
        SSeq.NORMALIZE = True
        SSeq.CONST_HASH = False
    res.absorb_engine(eng)
    return res


def concrete_roundtrip(w) -> Optional[str]:
    nrm, ch = SSeq.NORMALIZE, SSeq.CONST_HASH
    SSeq.NORMALIZE, SSeq.CONST_HASH = True, False
    try:
        r = WR.Response()
        try:
            r.set_cookie(w["name"], w["value"])
            line = [v for k, v in r.list_headers(as_bytes=False) if k == "set-cookie"][0]
            raw = [v for k, v in r.list_headers(as_bytes=True) if k == b"set-cookie"][0]
            if w.get("via", "direct") != "direct":
                prev = Engine.cur
                Engine.cur = None
                try:
                    lines = emitted_cookie_line(w["via"], w["name"], w["value"])
                finally:
                    Engine.cur = prev
                if len(lines) != 1:
                    return f"{len(lines)} Set-Cookie lines reach the client ({w['via']}) for one cookie set"
                line = lines[0]
        except Exception as ex:  # noqa: BLE001
            return f"exception {type(ex).__name__}: {ex}"
        pair = line.split("; path=")[0]
        if not pair.isascii() or any(ord(c) < 32 or ord(c) > 126 for c in pair):
            return f"serialisation not printable ASCII: {pair!r}"
        hdr = pair if not w["among"] else "aaa=1; " + pair + "; zzz=2"
        try:
            if w["iface"] == "wsgi":
                jar = WQ.Request({"REQUEST_METHOD": "GET", "HTTP_COOKIE": hdr}).cookies
            else:
                jar = AQ.Request({"type": "http", "method": "GET", "headers": [(b"cookie", hdr.encode("latin-1"))]}).cookies
        except Exception as ex:  # noqa: BLE001
            return f"exception {type(ex).__name__}: {ex}"
        if jar.get(w["name"]) != w["value"]:
            return f"cookies[{w['name']!r}] = {jar.get(w['name'])!r}, sent {w['value']!r} as {pair!r}"
        if w["among"] and (jar.get("aaa") != "1" or jar.get("zzz") != "2" or len(jar) != 3):
            return f"neighbours disturbed: {jar!r}"
        return None
    finally:
        SSeq.NORMALIZE, SSeq.CONST_HASH = nrm, ch


# ------------------------------------------------------------------ expiry
def _t(x):
    return x if isinstance(x, z3.ExprRef) else term_of(x)


class Zone:
    """the server process's time zone: UTC offset as a function of the instant.  Fixed zones: one offset.  DST zones: an
    uninterpreted function utcoff(t) in {std, std+3600}, evaluated wherever the code under test converts between an
    instant and local wall-clock time; two evaluation points with different offsets lie at least 2 days apart (no
    conversion right at a transition) so that a real POSIX TZ rule with one transition between them exists for replay."""

    def __init__(self, std_term, dst: bool):
        self.std, self.dst = std_term, dst
        self.f = z3.Function("utcoff", z3.IntSort(), z3.IntSort())
        self.points: List[Any] = []

    def off(self, t):
        t = _t(t)
        if not self.dst:
            return self.std
        e = cur()
        o = self.f(t)
        e.assume(z3.Or(o == self.std, o == self.std + 3600))
        for p in self.points:
            if not z3.eq(p, t):
                e.assume(z3.Or(self.f(p) == o, p - t >= 2 * 86400, t - p >= 2 * 86400))
        if not any(z3.eq(p, t) for p in self.points):
            self.points.append(t)
        return o

    def to_utc(self, local):
        """the instant whose local wall-clock reading is `local` (what mktime / naive.astimezone() computes)"""
        if not self.dst:
            return _t(local) - self.std
        u = cur().fresh("utc_of_local").e
        cur().assume(u + self.off(u) == _t(local))
        return u


class SymTD:
    """datetime.timedelta over symbolic seconds"""

    def __init__(self, days=0, seconds=0, microseconds=0, milliseconds=0, minutes=0, hours=0, weeks=0):
        if microseconds or milliseconds:
            raise cur()._raise(Unsupported("sub-second timedelta"))
        self.secs = ((weeks * 7 + days) * 24 + hours) * 3600 + minutes * 60 + seconds

    def total_seconds(self):
        return self.secs

    def __neg__(self):
        r = SymTD()
        r.secs = -self.secs
        return r


def _secs(td):
    if isinstance(td, SymTD):
        return td.secs
    if isinstance(td, _dt.timedelta):
        if td.microseconds:
            raise cur()._raise(Unsupported("sub-second timedelta"))
        return td.days * 86400 + td.seconds
    return None


def _tzoff(tz):
    d = tz.utcoffset(None)
    return int(d.total_seconds())


class SymDT:
    """a datetime over a symbolic instant.  aware: `value` is the UTC instant and it prints value + tzoff;
    naive: `value` is the wall-clock reading itself (what strftime prints), its instant depends on the zone."""

    def __init__(self, zone: Zone, value, aware: bool, tzoff=0):
        self.zone, self.value, self.aware, self.tzoff = zone, value, aware, tzoff

    @property
    def printed(self):
        return self.value + self.tzoff if self.aware else self.value

    @property
    def tzinfo(self):
        return _dt.timezone(_dt.timedelta(seconds=self.tzoff)) if self.aware and isinstance(self.tzoff, int) else (None if not self.aware else "local")

    def strftime(self, fmt):
        if fmt != "%a, %d %b %Y %H:%M:%S GMT":
            raise cur()._raise(Unsupported(f"strftime format {fmt!r}"))
        return cur().render_int(term_of(self.printed))

    def __bool__(self):
        return True

    def __add__(self, td):
        k = _secs(td)
        if k is None:
            return NotImplemented
        return SymDT(self.zone, self.value + k, self.aware, self.tzoff)

    __radd__ = __add__

    def __sub__(self, td):
        k = _secs(td)
        if k is None:
            raise cur()._raise(Unsupported("datetime - datetime on symbolic instants"))
        return SymDT(self.zone, self.value - k, self.aware, self.tzoff)

    def timestamp(self):
        return self.value if self.aware else SInt(self.zone.to_utc(self.value))

    def astimezone(self, tz=None):
        inst = self.value if self.aware else SInt(self.zone.to_utc(self.value))
        if tz is None:
            return SymDT(self.zone, inst, True, SInt(self.zone.off(inst)))
        return SymDT(self.zone, inst, True, _tzoff(tz))

    def replace(self, **kw):
        if set(kw) != {"tzinfo"}:
            raise cur()._raise(Unsupported(f"datetime.replace({sorted(kw)}) on a symbolic instant"))
        tz = kw["tzinfo"]
        reading = self.printed
        if tz is None:
            return SymDT(self.zone, reading, False)
        return SymDT(self.zone, reading - _tzoff(tz), True, _tzoff(tz))


class DTMod:
    """stands for the `datetime` module inside baize.responses"""
    timezone = _dt.timezone
    timedelta = SymTD
    UTC = _dt.timezone.utc

    def __init__(self, zone: Zone, now):
        class datetime:  # noqa: N801
            @staticmethod
            def fromtimestamp(ts, tz=None):
                if tz is None:
                    return SymDT(zone, ts + SInt(zone.off(ts)), False)  # naive local: prints local wall clock
                return SymDT(zone, ts, True, _tzoff(tz))

            @staticmethod
            def utcfromtimestamp(ts):
                return SymDT(zone, ts, False)

            @staticmethod
            def now(tz=None):
                return datetime.fromtimestamp(now, tz)

            @staticmethod
            def utcnow():
                return SymDT(zone, now, False)

            @staticmethod
            def today():
                return datetime.fromtimestamp(now)
        self.datetime = datetime


class TimeMod:
    def __init__(self, now):
        self._now = now

    def time(self):
        return self._now

    def __getattr__(self, k):
        return getattr(_time, k)


def job_expiry(job) -> report.JobResult:
    res = report.JobResult.new(job["name"])
    twin = job.get("twin", False)
    mode = job["mode"]
    eng = Engine()
    eng.render_opaque = True
    now_v, exp_v, age_v, off_v = z3.Int("now"), z3.Int("expires"), z3.Int("max_age"), z3.Int("utc_offset")
    eng.solver.add(now_v >= 10 ** 9 + 10 ** 9, now_v <= 4102444800, exp_v >= -10 ** 9, exp_v <= 10 ** 9, age_v >= -1, age_v <= 10 ** 9,
                   off_v >= -12 * 3600, off_v <= 14 * 3600, off_v % 900 == 0)
    dst = job.get("dst", False)
    if dst:  # one transition between the two instants must be constructible as a yearly POSIX rule for the replay
        eng.solver.add(exp_v >= -150 * 86400, exp_v <= 150 * 86400)
    zone = Zone(off_v, dst)

    def mk_shims():
        zone.points = []
        return None
    shims = Shims().add(R, time=TimeMod(SInt(now_v)), datetime=DTMod(zone, SInt(now_v)))

    def fn():
        zone.points = []
        r = WR.Response()
        if mode == "set":
            r.set_cookie("sid", "v", expires=SInt(exp_v), max_age=SInt(age_v))
        elif mode == "set-noexp":
            r.set_cookie("sid", "v", max_age=SInt(age_v))
        else:
            r.delete_cookie("sid")
        line = [v for k, v in r.list_headers(as_bytes=False) if k == "set-cookie"][0]
        return line

    def attr(e, line, key):
        for part in line.split("; "):
            if part.startswith(key + "="):
                t = e.term_of_text(part[len(key) + 1:])
                if t is None:
                    raise Fail(f"{key}-not-a-number", part)
                return t
        return None

    def on_path(e, r):
        kind, val = r
        klass = detail = None
        try:
            if kind == "exc":
                raise Fail(f"exception:{type(val).__name__}", repr(val))
            if twin:
                raise Fail("twin-assert-false")
            line = val
            ex, ma = attr(e, line, "expires"), attr(e, line, "max-age")
            if mode == "set":
                if ex is None:
                    raise Fail("expires-attribute-missing", conc(line, e.witness()))
                if e.check(ex != now_v + exp_v):
                    raise Fail("expires-wrong-instant")
                if ma is None:
                    if e.check(age_v > -1):
                        raise Fail("max-age-missing")
                elif e.check(ma != age_v):
                    raise Fail("max-age-wrong")
            elif mode == "set-noexp":
                if ex is not None:
                    raise Fail("expires-without-being-asked")
                if ma is None:
                    if e.check(age_v > -1):
                        raise Fail("max-age-missing")
                elif e.check(ma != age_v):
                    raise Fail("max-age-wrong")
            else:
                if ex is None:
                    raise Fail("delete-without-expires")
                if e.check(ex > now_v):
                    raise Fail("delete-not-expired")
                if ma is None or e.check(ma != 0):
                    raise Fail("delete-max-age-not-zero")
        except Fail as f:
            klass, detail = f.klass, f.detail
        if klass not in ("expires-wrong-instant", "max-age-wrong", "max-age-missing", "delete-not-expired", "delete-max-age-not-zero"):
            e.last_sat = False
        m = e.witness()
        wit = {"mode": mode, "now": m.eval(now_v, True).as_long(), "expires": m.eval(exp_v, True).as_long(),
               "max_age": m.eval(age_v, True).as_long(), "utc_offset": m.eval(off_v, True).as_long(),
               "offsets_at": sorted({(m.eval(p, True).as_long(), m.eval(zone.f(p), True).as_long()) for p in zone.points})}
        with shims.off():
            cp = concrete_expiry(wit)
        if klass is not None:
            res.violation(f"C16/expiry/{mode}/{klass.split(':')[0]}", wit, f"{klass} {detail}; concrete (subprocess under TZ): {cp}", (cp is not None) or twin)
            return
        res.kind("expiry")
        if res["validated"] < 6:
            if cp is not None:
                res["harness_errors"].append(f"symbolic path holds but concrete run fails: {wit!r}: {cp}")
            res["validated"] += 1
        res.sample(wit, limit=1)

    with shims:
        eng.explore(fn, on_path)
    res.absorb_engine(eng)
    return res


_CHILD = r'''
import sys, json, time, os
w = json.loads(sys.argv[1])
time.tzset()
import baize.responses as R, baize.wsgi.responses as WR
from email.utils import parsedate_to_datetime
R.time = type("T", (), {"time": staticmethod(lambda: w["now"]), "__getattr__": lambda s, k: getattr(time, k)})()
import datetime as _d
class _Clock(_d.datetime):  # the system clock is the only thing replaced: "now" is the witness instant
    @classmethod
    def now(cls, tz=None): return cls.fromtimestamp(w["now"], tz)
    @classmethod
    def utcnow(cls): return cls.utcfromtimestamp(w["now"])
    @classmethod
    def today(cls): return cls.fromtimestamp(w["now"])
R.datetime = type("D", (), {"datetime": _Clock, "__getattr__": lambda s, k: getattr(_d, k)})()
for t, o in w.get("offsets_at", []):
    if time.localtime(t).tm_gmtoff != o:
        print(json.dumps("ZONE-MISMATCH at %d: libc says %d, witness %d (TZ=%s)" % (t, time.localtime(t).tm_gmtoff, o, os.environ.get("TZ")))); sys.exit(0)
r = WR.Response()
if w["mode"] == "set": r.set_cookie("sid", "v", expires=w["expires"], max_age=w["max_age"])
elif w["mode"] == "set-noexp": r.set_cookie("sid", "v", max_age=w["max_age"])
else: r.delete_cookie("sid")
line = [v for k, v in r.list_headers(as_bytes=False) if k == "set-cookie"][0]
attrs = dict(p.split("=", 1) for p in line.split("; ") if "=" in p)
out = None
exp = attrs.get("expires")
want = w["now"] + (w["expires"] if w["mode"] == "set" else 0)
if w["mode"] in ("set", "delete"):
    if exp is None: out = "no expires attribute: " + line
    else:
        got = int(parsedate_to_datetime(exp).timestamp())
        if w["mode"] == "set" and got != want: out = "expires denotes %d, asked %d (off by %d s): %s" % (got, want, got - want, line)
        if w["mode"] == "delete" and got > w["now"]: out = "deleted cookie expires in the future: " + line
if w["mode"] == "set-noexp" and exp is not None: out = "expires present: " + line
ma = attrs.get("max-age")
if out is None:
    if w["mode"] == "delete":
        if ma != "0": out = "delete max-age " + repr(ma)
    elif w["max_age"] > -1 and ma != str(w["max_age"]): out = "max-age %r != %d" % (ma, w["max_age"])
    elif w["max_age"] == -1 and ma is not None: out = "max-age present for -1"
print(json.dumps(out))
'''


def _posix_off(sec: int) -> str:
    """POSIX TZ offset text: sign inverted ('UTC+01:00' is written -1)"""
    sign = "-" if sec >= 0 else "+"
    a = abs(sec)
    return f"{sign}{a // 3600}:{(a % 3600) // 60:02d}:{a % 60:02d}"


def _rule_at(local_reading: int) -> str:
    """POSIX rule 'n/hh:mm:ss' (zero-based day of the year, leap days counted) for a local wall-clock reading"""
    t = _time.gmtime(local_reading)
    return f"{t.tm_yday - 1}/{t.tm_hour}:{t.tm_min:02d}:{t.tm_sec:02d}"


def tz_for(w) -> str:
    """a real POSIX TZ whose offsets at the witness instants are the witness offsets: fixed, or one DST transition placed
    midway between the two neighbouring instants that differ (DST season of 170 days on the side the witness says)"""
    pts = [tuple(p) for p in w.get("offsets_at", [])]
    offs = {o for _, o in pts}
    if len(offs) <= 1:
        off = offs.pop() if offs else w["utc_offset"]
        return "VRF" + _posix_off(off)
    std, dst = min(offs), max(offs)
    pts.sort()
    for (t1, o1), (t2, o2) in zip(pts, pts[1:]):
        if o1 != o2:
            mid = (t1 + t2) // 2
            if o1 < o2:  # entering DST at mid
                start, end = mid, mid + 170 * 86400
            else:        # leaving DST at mid
                start, end = mid - 170 * 86400, mid
            return f"VRS{_posix_off(std)}VRD{_posix_off(dst)},{_rule_at(start + std)},{_rule_at(end + dst)}"
    raise AssertionError("unreachable")


def concrete_expiry(w) -> Optional[str]:
    import json
    tz = tz_for(w)
    env = dict(os.environ, TZ=tz, PYTHONPATH=os.pathsep.join(sys.path))
    p = subprocess.run([sys.executable, "-c", _CHILD, json.dumps(w)], env=env, capture_output=True, text=True, timeout=60)
    if p.returncode != 0:
        return f"child failed: {p.stderr[-300:]}"
    out = json.loads(p.stdout.strip().splitlines()[-1])
    if isinstance(out, str) and out.startswith("ZONE-MISMATCH"):
        return None  # the replay zone could not be built as the witness demands: not a confirmation
    return out if out is None else f"{out} [TZ={tz}]"


def jobs(tier: str):
    b = META["bounds"][tier]
    out = []
    for iface in ("wsgi", "asgi"):
        for among in (False, True):
            for ln in (1, b["name_len_max"]):
                for lv in range(0, b["value_len_max"] + 1):
                    if ln > 1 and lv > 2:
                        continue
                    if iface == "asgi" and lv == b["value_len_max"] and tier == "quick":
                        continue
                    out.append(dict(name=f"roundtrip/{iface}/{'among' if among else 'alone'}/n{ln}v{lv}", kind="roundtrip", iface=iface, among=among,
                                    ln=ln, lv=lv, weight=6 ** lv * ln))
    for iface in ("wsgi", "asgi"):
        for t in ("\\***", "*\\**") if tier == "quick" else ("\\***", "*\\**", "\\****", "**\\***", "\"**\""):
            out.append(dict(name=f"roundtrip/{iface}/alone/n1/shape:{t}", kind="roundtrip", iface=iface, among=False, ln=1, lv=len(t), vtemplate=t, weight=6 ** t.count("*")))
    # the line as it reaches the server: the response called as an application, bare and behind one identity middleware of its stack
    for via in ("wsgi-app", "asgi-app", "wsgi-middleware", "asgi-middleware"):
        for lv in (1, 2):
            out.append(dict(name=f"roundtrip/{via.split('-')[0]}/alone/n1v{lv}/emitted-through:{via}", kind="roundtrip", iface=via.split("-")[0], among=False,
                            ln=1, lv=lv, via=via, weight=6 ** lv * 3))
    out.append(dict(name="twin/roundtrip", kind="roundtrip", iface="wsgi", among=False, ln=1, lv=1, twin=True))
    for mode in ("set", "set-noexp", "delete"):
        out.append(dict(name=f"expiry/{mode}", kind="expiry", mode=mode))
    out.append(dict(name="expiry/set/dst-zone", kind="expiry", mode="set", dst=True))
    out.append(dict(name="expiry/delete/dst-zone", kind="expiry", mode="delete", dst=True))
    out.append(dict(name="twin/expiry", kind="expiry", mode="set", twin=True))
    return out


def run_job(job):
    return job_roundtrip(job) if job["kind"] == "roundtrip" else job_expiry(job)


def replay(rec) -> int:
    w = rec["witness"]
    cp = concrete_expiry(w) if "mode" in w else concrete_roundtrip(w)
    print(f"replay C16: {w!r} -> {cp}")
    return 1 if cp else 0
