"""C16 -- cookies round-trip exactly and expire when asked.

Real code run: Cookie._quote/__str__ (live _cookie_translator, live legal-key regex), BaseResponse.set_cookie /
delete_cookie / list_headers, MoreInfoFromHeaderMixin.cookies (request side: split / strip / unquote) on both
Request classes, http.cookies._unquote (stdlib, run on proxies through injected module names).

roundtrip  name: symbolic HTTP-token characters; value: symbolic characters over the FULL 0..255 domain; the
           response-side serialisation is fed back (alone, and between two other cookies) into the request-side
           parser; the mapping must return the identical value, and the wire form must be ASCII. Solver-decided.
expiry     now, expires and max_age are symbolic integers, and the process's UTC offset is a symbolic integer:
           the Expires attribute must denote now+expires as GMT for EVERY offset; Max-Age must be the number asked.
           Counterexamples are replayed in a subprocess under a concrete TZ.
"""
from __future__ import annotations

import datetime as _dt
import os
import re as _re
import subprocess
import sys
import time as _time
from http import cookies as http_cookies
from typing import Any, Dict, List, Optional

import z3

import baize.asgi.requests as AQ
import baize.datastructures as DS
import baize.requests as RQ
import baize.responses as R
import baize.wsgi.requests as WQ
import baize.wsgi.responses as WR
from baize.datastructures import Cookie

from engine import report
from engine.forksym import Engine, SInt, Unsupported, conc, cur, term_of
from engine.reshim import ReShim, wrap_pattern
from engine.shims import Shims, chr_shim, int_shim, nulljoin_shim
from engine.symseq import SBytes, SSeq, SStr, _items_of

from .c13 import legal_key_shim

PID = "C16"
TCHAR = [ord(c) for c in "!#$%&'*+-.^_`|~0123456789ABCDEFGHIJKLMNOPQRSTUVWXYZabcdefghijklmnopqrstuvwxyz"]

META = {
    "functions": lambda: [Cookie._quote, Cookie.__str__, R.BaseResponse.set_cookie, R.BaseResponse.delete_cookie, R.BaseResponse.list_headers,
                          RQ.MoreInfoFromHeaderMixin.cookies, WQ.HTTPConnection.headers, AQ.HTTPConnection.headers, http_cookies._unquote],
    "engines": ["E-FS (forksym): symbolic characters through the real quoting table / regex and the real request-side parser"],
    "stubs": ["baize.datastructures._cookie_is_legal_key -> same bound method of the same pattern through ReShim",
              "http.cookies._OctalPatt/_QuotePatt/int/chr/_nulljoin -> proxy-aware versions of the same objects (stdlib code itself runs)",
              "expiry: baize.responses.time.time() -> symbolic now; baize.responses.datetime -> model of the datetime module whose naive-local "
              "datetimes print wall-clock = timestamp + a SYMBOLIC UTC offset, aware/UTC ones print the timestamp itself; strftime yields one "
              "token standing for the printed instant"],
    "assumptions": ["cookie names are HTTP tokens (as the property states); values are text over code points 0..255",
                    "expiry: a naive local datetime formats as local wall-clock time (offset constant over the instant in question)"],
    "bounds": {"quick": {"value_len_max": 3, "name_len_max": 2}, "thorough": {"value_len_max": 4, "name_len_max": 2}},
    "outside": ["longer values", "values beyond U+00FF", "DST transitions between now and now+expires (one offset per run)"],
    "expect_kinds": {"all": ["roundtrip", "expiry"]},
}


class Fail(Exception):
    def __init__(self, klass, detail=""):
        self.klass, self.detail = klass, detail


def rt_shims() -> Shims:
    s = Shims()
    s.add(DS, _cookie_is_legal_key=legal_key_shim())
    s.add(http_cookies, _OctalPatt=wrap_pattern(http_cookies._OctalPatt), _QuotePatt=wrap_pattern(http_cookies._QuotePatt),
          int=int_shim, chr=chr_shim, _nulljoin=nulljoin_shim)
    return s


def pair_items(line) -> List[Any]:
    """'name=value' part of a Set-Cookie line (before the first attribute), placeholders mapped back to terms"""
    e = cur()
    its = [SInt(e.chars[c]) if c in e.chars else ord(c) for c in line]
    # the attributes baize appends start at the first '; ' that is made of concrete characters
    for i in range(len(its) - 1):
        if its[i] == 59 and its[i + 1] == 32 and not isinstance(its[i], SInt):
            return its[:i]
    return its


def request_cookies(iface: str, header: SStr):
    if iface == "wsgi":
        req = WQ.Request({"REQUEST_METHOD": "GET", "HTTP_COOKIE": header, "QUERY_STRING": "", "wsgi.input": None})
    else:
        req = AQ.Request({"type": "http", "method": "GET", "headers": [(b"cookie", SBytes(header.items))], "path": "/", "query_string": b""})
    return req.cookies


def job_roundtrip(job) -> report.JobResult:
    res = report.JobResult.new(job["name"])
    twin = job.get("twin", False)
    ln, lv, iface, among = job["ln"], job["lv"], job["iface"], job["among"]
    eng = Engine(budget_s=1500)
    name = SStr.fresh(ln, "n", 0, 255, eng.solver)
    for c in name.items:
        eng.solver.add(z3.Or([c.e == t for t in TCHAR]))
    value = SStr.fresh(lv, "v", 0, 255, eng.solver)
    shims = rt_shims()
    SSeq.NORMALIZE = False
    SSeq.CONST_HASH = True

    def fn():
        r = WR.Response()
        r.set_cookie(name, value)
        line = [v for k, v in r.list_headers(as_bytes=False) if k == "set-cookie"][0]
        pair = pair_items(line)
        wire = list(pair)
        if among:
            wire = [ord(c) for c in "aaa=1; "] + wire + [ord(c) for c in "; zzz=2"]  # neighbour names are longer than any symbolic name
        jar = request_cookies(iface, SStr(wire))
        return pair, jar

    def on_path(e, r):
        kind, val = r
        klass = detail = None
        try:
            if kind == "exc":
                raise Fail(f"exception:{type(val).__name__}", repr(val))
            if twin:
                raise Fail("twin-assert-false")
            pair, jar = val
            non_ascii = [z3.Or(term_of(c) < 32, term_of(c) > 126) for c in pair if isinstance(c, SInt)]
            if any((not isinstance(c, SInt)) and not (32 <= c <= 126) for c in pair) or (non_ascii and e.check(z3.Or(non_ascii))):
                raise Fail("serialisation-not-ascii")
            hits = []
            for k, v in jar.items():
                ki = _items_of(k)
                if len(ki) != ln:
                    continue
                diffs = [term_of(a) != term_of(b) for a, b in zip(ki, name.items) if not z3.eq(term_of(a), term_of(b))]
                if not diffs or not e.check(z3.Or(diffs)):
                    hits.append(v)
                elif e.check(z3.Not(z3.Or(diffs))):
                    raise Fail("cookie-name-ambiguous")
            if len(hits) != 1:
                raise Fail("cookie-missing-from-mapping", f"{len(hits)} entries named like the cookie; keys: {[conc(k, e.witness()) for k in jar]}")
            vi = _items_of(hits[0])
            if len(vi) != lv:
                raise Fail("value-length-changed", f"{len(vi)} != {lv}")
            diffs = [term_of(a) != term_of(b) for a, b in zip(vi, value.items) if not z3.eq(term_of(a), term_of(b))]
            if diffs and e.check(z3.Or(diffs)):
                raise Fail("value-altered")
            if among and (len(jar) != 3):
                raise Fail("neighbour-cookies-disturbed", f"{len(jar)} cookies parsed")
        except Fail as f:
            klass, detail = f.klass, f.detail
        if klass not in ("serialisation-not-ascii", "value-altered"):
            e.last_sat = False
        m = e.witness()
        wit = {"name": conc(name, m), "value": conc(value, m), "iface": iface, "among": among}
        with shims.off():
            cp = concrete_roundtrip(wit)
        if klass is not None:
            res.violation(f"C16/roundtrip/{klass.split(':')[0]}", wit, f"{klass} {detail}; concrete: {cp}", (cp is not None) or twin)
            return
        res.kind("roundtrip")
        if cp is not None:
            res["harness_errors"].append(f"symbolic path holds but concrete run fails: {wit!r}: {cp}")
        res["validated"] += 1
        res.sample({k_: repr(v_) for k_, v_ in wit.items()}, limit=1)

    try:
        with shims:
            eng.explore(fn, on_path)
    finally:
        SSeq.NORMALIZE = True
        SSeq.CONST_HASH = False
    res.absorb_engine(eng)
    return res


def concrete_roundtrip(w) -> Optional[str]:
    nrm, ch = SSeq.NORMALIZE, SSeq.CONST_HASH
    SSeq.NORMALIZE, SSeq.CONST_HASH = True, False
    try:
        r = WR.Response()
        try:
            r.set_cookie(w["name"], w["value"])
            line = [v for k, v in r.list_headers(as_bytes=False) if k == "set-cookie"][0]
            raw = [v for k, v in r.list_headers(as_bytes=True) if k == b"set-cookie"][0]
        except Exception as ex:  # noqa: BLE001
            return f"exception {type(ex).__name__}: {ex}"
        pair = line.split("; path=")[0]
        if not pair.isascii() or any(ord(c) < 32 or ord(c) > 126 for c in pair):
            return f"serialisation not printable ASCII: {pair!r}"
        hdr = pair if not w["among"] else "aaa=1; " + pair + "; zzz=2"
        try:
            if w["iface"] == "wsgi":
                jar = WQ.Request({"REQUEST_METHOD": "GET", "HTTP_COOKIE": hdr}).cookies
            else:
                jar = AQ.Request({"type": "http", "method": "GET", "headers": [(b"cookie", hdr.encode("latin-1"))]}).cookies
        except Exception as ex:  # noqa: BLE001
            return f"exception {type(ex).__name__}: {ex}"
        if jar.get(w["name"]) != w["value"]:
            return f"cookies[{w['name']!r}] = {jar.get(w['name'])!r}, sent {w['value']!r} as {pair!r}"
        if w["among"] and (jar.get("aaa") != "1" or jar.get("zzz") != "2" or len(jar) != 3):
            return f"neighbours disturbed: {jar!r}"
        return None
    finally:
        SSeq.NORMALIZE, SSeq.CONST_HASH = nrm, ch


# ------------------------------------------------------------------ expiry
class SymDT:
    """printed wall clock of a datetime built from a symbolic timestamp"""

    def __init__(self, printed):
        self.printed = printed

    def strftime(self, fmt):
        if fmt != "%a, %d %b %Y %H:%M:%S GMT":
            raise cur()._raise(Unsupported(f"strftime format {fmt!r}"))
        return cur().render_int(term_of(self.printed))

    def __bool__(self):
        return True


class DTMod:
    """stands for the `datetime` module inside baize.responses"""
    timezone = _dt.timezone
    timedelta = _dt.timedelta
    UTC = _dt.timezone.utc

    def __init__(self, offset):
        off = offset

        class datetime:  # noqa: N801
            @staticmethod
            def fromtimestamp(ts, tz=None):
                if tz is None:
                    return SymDT(ts + off)  # naive local: prints local wall clock
                d = tz.utcoffset(None)
                return SymDT(ts + int(d.total_seconds()))

            @staticmethod
            def utcfromtimestamp(ts):
                return SymDT(ts)

            @staticmethod
            def now(tz=None):
                raise cur()._raise(Unsupported("datetime.now in set_cookie"))
        self.datetime = datetime


class TimeMod:
    def __init__(self, now):
        self._now = now

    def time(self):
        return self._now

    def __getattr__(self, k):
        return getattr(_time, k)


def job_expiry(job) -> report.JobResult:
    res = report.JobResult.new(job["name"])
    twin = job.get("twin", False)
    mode = job["mode"]
    eng = Engine()
    eng.render_opaque = True
    now_v, exp_v, age_v, off_v = z3.Int("now"), z3.Int("expires"), z3.Int("max_age"), z3.Int("utc_offset")
    eng.solver.add(now_v >= 10 ** 9 + 10 ** 9, now_v <= 4102444800, exp_v >= -10 ** 9, exp_v <= 10 ** 9, age_v >= -1, age_v <= 10 ** 9,
                   off_v >= -12 * 3600, off_v <= 14 * 3600, off_v % 900 == 0)
    shims = Shims().add(R, time=TimeMod(SInt(now_v)), datetime=DTMod(SInt(off_v)))

    def fn():
        r = WR.Response()
        if mode == "set":
            r.set_cookie("sid", "v", expires=SInt(exp_v), max_age=SInt(age_v))
        elif mode == "set-noexp":
            r.set_cookie("sid", "v", max_age=SInt(age_v))
        else:
            r.delete_cookie("sid")
        line = [v for k, v in r.list_headers(as_bytes=False) if k == "set-cookie"][0]
        return line

    def attr(e, line, key):
        for part in line.split("; "):
            if part.startswith(key + "="):
                t = e.term_of_text(part[len(key) + 1:])
                if t is None:
                    raise Fail(f"{key}-not-a-number", part)
                return t
        return None

    def on_path(e, r):
        kind, val = r
        klass = detail = None
        try:
            if kind == "exc":
                raise Fail(f"exception:{type(val).__name__}", repr(val))
            if twin:
                raise Fail("twin-assert-false")
            line = val
            ex, ma = attr(e, line, "expires"), attr(e, line, "max-age")
            if mode == "set":
                if ex is None:
                    raise Fail("expires-attribute-missing", conc(line, e.witness()))
                if e.check(ex != now_v + exp_v):
                    raise Fail("expires-wrong-instant")
                if ma is None:
                    if e.check(age_v > -1):
                        raise Fail("max-age-missing")
                elif e.check(ma != age_v):
                    raise Fail("max-age-wrong")
            elif mode == "set-noexp":
                if ex is not None:
                    raise Fail("expires-without-being-asked")
                if ma is None:
                    if e.check(age_v > -1):
                        raise Fail("max-age-missing")
                elif e.check(ma != age_v):
                    raise Fail("max-age-wrong")
            else:
                if ex is None:
                    raise Fail("delete-without-expires")
                if e.check(ex > now_v):
                    raise Fail("delete-not-expired")
                if ma is None or e.check(ma != 0):
                    raise Fail("delete-max-age-not-zero")
        except Fail as f:
            klass, detail = f.klass, f.detail
        if klass not in ("expires-wrong-instant", "max-age-wrong", "max-age-missing", "delete-not-expired", "delete-max-age-not-zero"):
            e.last_sat = False
        m = e.witness()
        wit = {"mode": mode, "now": m.eval(now_v, True).as_long(), "expires": m.eval(exp_v, True).as_long(),
               "max_age": m.eval(age_v, True).as_long(), "utc_offset": m.eval(off_v, True).as_long()}
        with shims.off():
            cp = concrete_expiry(wit)
        if klass is not None:
            res.violation(f"C16/expiry/{mode}/{klass.split(':')[0]}", wit, f"{klass} {detail}; concrete (subprocess under TZ): {cp}", (cp is not None) or twin)
            return
        res.kind("expiry")
        if res["validated"] < 6:
            if cp is not None:
                res["harness_errors"].append(f"symbolic path holds but concrete run fails: {wit!r}: {cp}")
            res["validated"] += 1
        res.sample(wit, limit=1)

    with shims:
        eng.explore(fn, on_path)
    res.absorb_engine(eng)
    return res


_CHILD = r'''
import sys, json, time, os
w = json.loads(sys.argv[1])
time.tzset()
import baize.responses as R, baize.wsgi.responses as WR
from email.utils import parsedate_to_datetime
R.time = type("T", (), {"time": staticmethod(lambda: w["now"]), "__getattr__": lambda s, k: getattr(time, k)})()
r = WR.Response()
if w["mode"] == "set": r.set_cookie("sid", "v", expires=w["expires"], max_age=w["max_age"])
elif w["mode"] == "set-noexp": r.set_cookie("sid", "v", max_age=w["max_age"])
else: r.delete_cookie("sid")
line = [v for k, v in r.list_headers(as_bytes=False) if k == "set-cookie"][0]
attrs = dict(p.split("=", 1) for p in line.split("; ") if "=" in p)
out = None
exp = attrs.get("expires")
want = w["now"] + (w["expires"] if w["mode"] == "set" else 0)
if w["mode"] in ("set", "delete"):
    if exp is None: out = "no expires attribute: " + line
    else:
        got = int(parsedate_to_datetime(exp).timestamp())
        if w["mode"] == "set" and got != want: out = "expires denotes %d, asked %d (off by %d s): %s" % (got, want, got - want, line)
        if w["mode"] == "delete" and got > w["now"]: out = "deleted cookie expires in the future: " + line
if w["mode"] == "set-noexp" and exp is not None: out = "expires present: " + line
ma = attrs.get("max-age")
if out is None:
    if w["mode"] == "delete":
        if ma != "0": out = "delete max-age " + repr(ma)
    elif w["max_age"] > -1 and ma != str(w["max_age"]): out = "max-age %r != %d" % (ma, w["max_age"])
    elif w["max_age"] == -1 and ma is not None: out = "max-age present for -1"
print(json.dumps(out))
'''


def concrete_expiry(w) -> Optional[str]:
    import json
    off = w["utc_offset"]
    # POSIX TZ: sign inverted, "UTC offset +01:00" is written <X>-1
    sign = "-" if off >= 0 else "+"
    a = abs(off)
    tz = f"VRF{sign}{a // 3600}:{(a % 3600) // 60:02d}"
    env = dict(os.environ, TZ=tz, PYTHONPATH=os.pathsep.join(sys.path))
    p = subprocess.run([sys.executable, "-c", _CHILD, json.dumps(w)], env=env, capture_output=True, text=True, timeout=60)
    if p.returncode != 0:
        return f"child failed: {p.stderr[-300:]}"
    return json.loads(p.stdout.strip().splitlines()[-1])


def jobs(tier: str):
    b = META["bounds"][tier]
    out = []
    for iface in ("wsgi", "asgi"):
        for among in (False, True):
            for ln in (1, b["name_len_max"]):
                for lv in range(0, b["value_len_max"] + 1):
                    if ln > 1 and lv > 2:
                        continue
                    if iface == "asgi" and lv == b["value_len_max"] and tier == "quick":
                        continue
                    out.append(dict(name=f"roundtrip/{iface}/{'among' if among else 'alone'}/n{ln}v{lv}", kind="roundtrip", iface=iface, among=among,
                                    ln=ln, lv=lv, weight=6 ** lv * ln))
    out.append(dict(name="twin/roundtrip", kind="roundtrip", iface="wsgi", among=False, ln=1, lv=1, twin=True))
    for mode in ("set", "set-noexp", "delete"):
        out.append(dict(name=f"expiry/{mode}", kind="expiry", mode=mode))
    out.append(dict(name="twin/expiry", kind="expiry", mode="set", twin=True))
    return out


def run_job(job):
    return job_roundtrip(job) if job["kind"] == "roundtrip" else job_expiry(job)


def replay(rec) -> int:
    w = rec["witness"]
    cp = concrete_expiry(w) if "mode" in w else concrete_roundtrip(w)
    print(f"replay C16: {w!r} -> {cp}")
    return 1 if cp else 0
