"""C01 -- multipart decoding is exact and independent of how the body is chunked.

Real code run: MultipartDecoder.{receive_data,next_event,last_newline,_parse_headers}, safe_decode,
parse_header, parse_stream, parse_async_stream, wsgi.Request.form/stream, asgi.Request.form/stream.

Symbolic (solver-decided): the content bytes of every part, full 0..255 (field parts: 0..127 so
that text decoding is the identity), constrained only by "does not contain '--'+boundary".
Enumerated: form templates, boundaries, chunkings (cut positions), entry points.
"""
from __future__ import annotations

import itertools
from typing import Any, Dict, List

import z3

import baize.asgi.requests as AR
import baize.multipart as M
import baize.multipart_helper as MH
import baize.utils as U
import baize.wsgi.requests as WR

from engine import report
from engine.forksym import Engine, Pruned, SInt, conc, term_of
from engine.symseq import SBytes

from . import mp_common as C

PID = "C01"

META = {
    "functions": lambda: [M.MultipartDecoder.next_event, M.MultipartDecoder.last_newline, M.MultipartDecoder.receive_data,
                          M.MultipartDecoder._parse_headers, M.MultipartDecoder.__init__, M.safe_decode, U.parse_header,
                          U._parseparam, MH.parse_stream, MH.parse_async_stream, WR.Request.form, WR.Request.stream,
                          WR.Request._parse_multipart, AR.Request.form, AR.Request.stream, AR.Request._parse_multipart],
    "engines": ["E-FS (forksym; ReShim interprets the decoder's own regexes over symbolic bytes)"],
    "stubs": C.STUBS,
    "assumptions": [
        "well-formed bodies: CRLF line breaks in the framing the harness writes (content bytes are arbitrary); extra recipes with bare-LF "
        "(content not ending in CR) and bare-CR framing exercise the decoder's documented leniency",
        "field-part content bytes are ASCII (text decoding = identity); file-part bytes are unrestricted 0..255",
        "part names / filenames / extra headers / boundaries / preamble / epilogue come from an enumerated recipe list",
        "chunk boundaries are enumerated (every single cut near the content and delimiters, byte-at-a-time, "
        "interleaved empty chunks, pairs of cuts), not solved",
    ],
    "bounds": {
        "quick": {"symbolic_bytes_total_max": 3, "cuts": "all single cuts within 12 bytes of symbolic content/delimiters + bytewise; "
                  "2-cut pairs within 4 bytes on the decoder for <=2 symbolic bytes", "boundaries": 5},
        "thorough": {"symbolic_bytes_total_max": 5, "cuts": "all single cuts + bytewise + 2-cut pairs within 4 bytes", "boundaries": 5},
    },
    "outside": ["more symbolic content bytes than the bound", "non-ASCII field text", "bare-CR / bare-LF framing",
                "names containing quote, backslash or line break (excluded by the property)", "3 or more simultaneous cuts other than bytewise"],
    "expect_kinds": {"all": ["decoded"]},
}

BOUNDARIES = [b"b", b"--", b"a-b", b"+.()?'", b"x" * 70]


def templates(nsym_max: int, thorough: bool):
    """(label, builder) ; builder(vars) -> (parts, preamble, epilogue); nsym per part list."""
    T = []
    # one file part with n free bytes
    for n in range(0, nsym_max + 1):
        T.append((f"file{n}", [("file", n, b"", b"")]))
    for n in range(1, nsym_max + 1):
        T.append((f"field{n}", [("field", n, b"", b"")]))
    # partial-delimiter context around free bytes
    if nsym_max >= 1:
        T.append(("file-crlf-dash+1", [("file", 1, b"\r\n--", b"")]))
        T.append(("file-1+cr", [("file", 1, b"", b"\r")]))
        T.append(("file-1+crlfdash", [("file", 1, b"x", b"\r\n-")]))
        T.append(("field-utf8+1", [("field", 1, "Z\u00fc".encode(), b"")]))
        T.append(("field-1+utf8", [("field", 1, b"", "\u20ac!".encode())]))
    if nsym_max >= 2:
        T.append(("file-lf+2", [("file", 2, b"\n", b"")]))
        T.append(("field1+file1", [("field", 1, b"", b""), ("file", 1, b"", b"")]))
        T.append(("file1+field1", [("file", 1, b"", b""), ("field", 1, b"v", b"")]))
    if nsym_max >= 3:
        T.append(("file2+file1", [("file", 2, b"", b""), ("file", 1, b"", b"")]))
    if thorough and nsym_max >= 4:
        T.append(("field2+file2", [("field", 2, b"", b""), ("file", 2, b"", b"")]))
    return T


VARIANTS = [
    dict(label="plain", names=("f", "g"), filename="a.txt", extra=(), pre=b"", epi=b""),
    dict(label="rich", names=("a;b", "n m"), filename="x y;z.bin", extra=(("Content-Type", "application/x-thing"), ("X-Extra", "1; q=\"2\"")),
         pre=b"this is a preamble", epi=b"trailing epilogue\r\n"),
    dict(label="emptyfn", names=("f", "g"), filename="", extra=(), pre=b"", epi=b""),
    dict(label="seps", names=("a\x1cb", "x\u2028y"), filename="f\x0bg\x85.txt", extra=(("X-Note", "v\x0cw"),), pre=b"", epi=b""),
    dict(label="utf8", names=("é", "名"), filename="naïve.txt", extra=(("Content-Type", "text/plain"),), pre=b"", epi=b"e"),
]


def build(job):
    """-> (parts, body items, content vars, boundary)"""
    tmpl = job["tmpl"]
    var = VARIANTS[job["variant"]]
    boundary = BOUNDARIES[job["boundary"]]
    parts = []
    allvars = []
    for i, (kind, n, pre, post) in enumerate(tmpl):
        vs = [z3.Int(f"c{i}_{j}") for j in range(n)]
        allvars.append((kind, vs))
        content = list(pre) + [SInt(v) for v in vs] + list(post)
        if kind == "file":
            parts.append(C.Part("file", var["names"][i % 2], content, var["filename"], var["extra"]))
        else:
            parts.append(C.Part("field", var["names"][i % 2], content))
    body = C.encode_form(parts, boundary, var["pre"], var["epi"], lb=job.get("lb", b"\r\n"), pad=job.get("pad", b""), eq=job.get("eq", b"="))
    return parts, body, allvars, boundary


def compare(e: Engine, got, exp):
    """Solver-decided equality of normal forms; returns failure class or None."""
    if len(got) != len(exp):
        return f"part-count:{len(got)}!={len(exp)}"
    for g, x in zip(got, exp):
        if g[0] != x[0]:
            return "part-kind"
        if g[1] != x[1]:
            return "name-mismatch"
        if g[0] == "file":
            if g[2] != x[2]:
                return "filename-mismatch"
            for k, v in x[3].items():
                if g[3].get(k) != v:
                    return f"part-header-mismatch:{k}"
        gi, xi = g[-1], x[-1]
        if len(gi) != len(xi):
            return "content-length"
        diffs = []
        for a, b in zip(gi, xi):
            if a is b:
                continue
            if isinstance(a, SInt) or isinstance(b, SInt):
                ta, tb = term_of(a), term_of(b)
                if not z3.eq(ta, tb):
                    diffs.append(ta != tb)
            elif a != b:
                return "content-mismatch"
        if diffs and e.check(z3.Or(diffs)):
            return "content-mismatch"
    return None


def run_job(job) -> report.JobResult:
    res = report.JobResult.new(job["name"])
    twin = job.get("twin", False)
    parts, body, allvars, boundary = build(job)
    exp = C.expected(parts)
    delim = list(b"--" + boundary)
    shims = C.make_shims()
    sym_idx = [i for i, x in enumerate(body) if isinstance(x, SInt)]
    focus = sym_idx + [i for i in range(len(body) - 1) if body[i] is not None and not isinstance(body[i], SInt)
                       and not isinstance(body[i + 1], SInt) and body[i] == 45 and body[i + 1] == 45]
    cutlists = C.chunkings(len(body), job["cutmode"], focus if job.get("focus", True) else None)
    res["recipes"] = len(cutlists) * len(job["entries"])
    for entry in job["entries"]:
        for cuts in cutlists:
            for empty in ([False, True] if job.get("empties") and len(cuts) <= 2 else [False]):
                if empty and entry == "wsgi_form":
                    continue
                eng = Engine(budget_s=job.get("budget", 900))
                # the helpers take limits: any setting at or above this form's own totals must leave the result untouched, for every chunking
                lim_parts, lim_mem = z3.Int("max_form_parts"), z3.Int("max_form_memory_size")
                limited = entry in ("parse_stream", "parse_async_stream")
                if limited:
                    eng.solver.add(lim_parts >= len(parts), lim_mem >= sum(len(p.content) for p in parts if p.kind == "field"))
                for kind, vs in allvars:
                    for v in vs:
                        eng.solver.add(v >= 0, v <= (127 if kind == "field" else 255))
                if job.get("lb", b"\r\n") == b"\n":
                    # bare-LF framing is inherently ambiguous when content ends in CR (CR LF is read as one line break)
                    for p in parts:
                        if p.content and isinstance(p.content[-1], SInt):
                            eng.solver.add(p.content[-1].e != 13)

                def fn():
                    # precondition, evaluated symbolically before the call: content free of '--'+boundary
                    for p in parts:
                        if SBytes(p.content).find(delim) != -1:
                            raise Engine.cur._raise(Pruned())
                    chunks = [C.mk_chunk(c) for c in C.split(body, cuts, empty)]
                    got = C.run_entry(entry, chunks, boundary, limits={"max_form_parts": SInt(lim_parts), "max_form_memory_size": SInt(lim_mem)} if limited else None,
                                      **({"factory": C.LenSink} if job.get("sink") == "len" else {}))
                    # field text is the UTF-8 decoding of the field's bytes (symbolic bytes of fields are ASCII, fixed fragments may be multi-byte)
                    exp_now = []
                    for x in exp:
                        if entry != "decoder" and x[0] == "field" and any((not isinstance(c, SInt)) and c > 127 for c in x[2]):
                            from engine.symseq import _items_of
                            exp_now.append(("field", x[1], _items_of(SBytes(x[2]).decode("utf-8"))))
                        else:
                            exp_now.append(x)
                    return got, exp_now

                def on_path(e, r, entry=entry, cuts=cuts, empty=empty, limited=limited, lim_parts=lim_parts, lim_mem=lim_mem):
                    kind, v = r
                    if twin:
                        klass = "twin-assert-false"
                    elif kind == "exc":
                        klass = f"exception:{type(v).__name__}"
                    else:
                        v, exp_path = v
                        klass = compare(e, v, exp_path)
                    if klass is None or not klass.startswith("content-mismatch"):
                        e.check()
                    m = e.solver.model()
                    cbody = bytes(conc(body, m))
                    climits = {"max_form_parts": m.eval(lim_parts, True).as_long(), "max_form_memory_size": m.eval(lim_mem, True).as_long()} if limited else None
                    with shims.off():
                        real = C.run_concrete(entry, cbody, cuts, boundary, empty, limits=climits, factory=C.LenSink if job.get("sink") == "len" else None)
                    cexp = concrete_expected(parts, m, raw=(entry == "decoder"))
                    if klass is not None:
                        reproduced = (real != cexp) or twin
                        res.violation(f"C01/{entry}/{klass.split(':')[0]}",
                                      {"body_hex": cbody.hex(), "cuts": cuts, "empty_chunks": empty, "boundary": boundary.decode("latin-1"),
                                       "entry": entry, "expected": repr(cexp), "limits": climits, "sink": job.get("sink")},
                                      f"{klass}; real result {real!r}"[:600], reproduced)
                        return
                    res.kind("decoded")
                    if real != cexp:
                        res["harness_errors"].append(f"shim/real disagreement entry={entry} cuts={cuts} body={cbody!r}: real={real!r}")
                    res["validated"] += 1
                    res.sample({"entry": entry, "cuts": cuts, "body": cbody.decode("latin-1")}, limit=1)

                with shims:
                    eng.explore(fn, on_path)
                res.absorb_engine(eng)
    return res


def concrete_expected(parts, m, raw=False):
    out = []
    for p in parts:
        content = bytes(conc(list(p.content), m))
        if p.kind == "field":
            try:
                out.append(("field", p.name, content.decode("latin-1" if raw else "utf-8")))  # event-level decoder: raw bytes
            except UnicodeDecodeError:
                out.append(("field", p.name, content.decode("latin-1")))
        else:
            hdrs = {"content-disposition": p.header_bytes().decode("utf-8").split("\r\n")[0].split(": ", 1)[1]}
            for k, v in p.extra:
                hdrs[k.lower()] = v
            out.append(("file", p.name, p.filename, hdrs, content))
    return out


def jobs(tier: str):
    thorough = tier == "thorough"
    nmax = META["bounds"][tier]["symbolic_bytes_total_max"]
    out = []
    T = templates(nmax, thorough)
    nb = META["bounds"][tier]["boundaries"]
    for label, tmpl in T:
        nsym = sum(n for _, n, _, _ in tmpl)
        for bi in range(nb):
            for vi in range(len(VARIANTS)):
                # keep the product in check: the rich/utf8 variants and exotic boundaries run with <= 2 free bytes
                if (vi > 0 or bi > 0) and nsym > (3 if thorough else 2):
                    continue
                if vi > 0 and bi > 1:
                    continue
                if bi >= 3 and nsym > 1:
                    continue
                dec_mode = "cut2" if (nsym <= (3 if thorough else 2) and bi == 0 and vi == 0) else "cut1"
                out.append(dict(name=f"{label}/b{bi}/{VARIANTS[vi]['label']}/decoder", tmpl=tmpl, boundary=bi, variant=vi,
                                entries=["decoder"], cutmode=dec_mode, empties=(vi == 0 and bi == 0), weight=4 ** nsym * (8 if dec_mode == "cut2" else 1)))
                if bi == 0 or thorough:
                    out.append(dict(name=f"{label}/b{bi}/{VARIANTS[vi]['label']}/helpers", tmpl=tmpl, boundary=bi, variant=vi,
                                    entries=["parse_stream", "parse_async_stream", "wsgi_form", "asgi_form"],
                                    cutmode="cut1", empties=False, weight=4 ** nsym * 4))
    # the decoder's documented leniency: bare LF / bare CR framing (outside the RFC; kept working)
    for lbname, lb in (("lf", b"\n"), ("cr", b"\r")):
        for label, tmpl in T:
            nsym = sum(n for _, n, _, _ in tmpl)
            if nsym > 2 or any(pre or post for _, _, pre, post in tmpl):
                continue
            out.append(dict(name=f"{label}/b0/plain/decoder-{lbname}", tmpl=tmpl, boundary=0, variant=0, entries=["decoder", "parse_stream"],
                            cutmode="cut1", empties=False, lb=lb, weight=4 ** nsym * 2))
    # delimiters followed by long transport padding (40 blanks), every single cut position: a chunk border inside the padding included
    for label, tmpl in (("field1+file1", [("field", 1, b"", b""), ("file", 1, b"", b"")]), ("file1", [("file", 1, b"", b"")])):
        out.append(dict(name=f"{label}/b0/plain/padded-delimiters", tmpl=tmpl, boundary=0, variant=0, entries=["decoder", "parse_stream", "parse_async_stream"],
                        cutmode="cut1", focus=False, empties=False, pad=b" \t" * 20, weight=60))
    # Content-Disposition parameters spelled with white space around '=' (RFC 2045 lexical form)
    for tag, eq in (("blank-before-equals", b" ="), ("blanks-around-equals", b" = ")):
        out.append(dict(name=f"field1+file1/b0/plain/{tag}", tmpl=[("field", 1, b"", b""), ("file", 1, b"", b"")], boundary=0, variant=0,
                        entries=["decoder", "parse_stream", "parse_async_stream", "wsgi_form", "asgi_form"], cutmode="cut1", empties=False, eq=eq, weight=30))
    # file_factory is a caller-supplied hook: a sink class whose instances are falsy while empty (defines __len__) is a file all the same
    for label, tmpl in (("field1+file1+field1", [("field", 1, b"", b""), ("file", 1, b"", b""), ("field", 1, b"", b"")]), ("file0+file2", [("file", 0, b"", b""), ("file", 2, b"", b"")])):
        out.append(dict(name=f"{label}/b0/plain/sink-falsy-while-empty", tmpl=tmpl, boundary=0, variant=0, entries=["parse_stream", "parse_async_stream"],
                        cutmode="cut1", empties=False, sink="len", weight=40))
    out.append(dict(name="twin/file1", tmpl=[("file", 1, b"", b"")], boundary=0, variant=0, entries=["decoder", "wsgi_form"],
                    cutmode="whole", twin=True))
    return out


def replay(rec) -> int:
    w = rec["witness"]
    body = bytes.fromhex(w["body_hex"])
    real = C.run_concrete(w["entry"], body, w["cuts"], w["boundary"].encode("latin-1"), w.get("empty_chunks", False), limits=w.get("limits"), factory=C.LenSink if w.get("sink") == "len" else None)
    print(f"replay C01: entry={w['entry']} cuts={w['cuts']} body={body!r}\n  real     = {real!r}\n  expected = {w['expected']}")
    return 1 if repr(real) != w["expected"] else 0
