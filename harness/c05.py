"""C05 -- every response obeys the server-gateway protocol (ASGI / WSGI), also under faults.

Real code run: all response classes of baize.wsgi.responses / baize.asgi.responses (__init__, __call__, render*,
list_headers, set_cookie), asgi.helper.send_http_start/body, FileResponse error paths, StatusStringMapping.

Symbolic: status code (100..999), header / cookie values (printable Latin-1 characters), body bytes, download names
(full Unicode), and the FAULT POINT: the index of the send() call at which the client disappears, the step at which
the producer raises, the number of chunks after which a WSGI server closes the iterable -- all solver-decided.
A protocol monitor (harness/gw.py) checks the recorded event sequence; for symbolic characters each clause
(lower-case name, Latin-1, no control character) is a solver query.
"""
from __future__ import annotations

import asyncio
import itertools
from typing import Any, Dict, List, Optional

import z3

import baize.asgi.helper as AH
import baize.asgi.responses as AR
import baize.datastructures as DS
import baize.responses as R
import baize.wsgi.responses as WR

from engine import report
from engine.forksym import Engine, SInt, conc, cur, term_of
from engine.shims import Shims
from engine.symseq import SBytes, SSeq, SStr, _items_of

from . import c02 as C2
from . import gw
from .c13 import legal_key_shim, quote_model
from .gw import Fail
from baize.exceptions import HTTPException

PID = "C05"

META = {
    "functions": lambda: [WR.Response.__call__, WR.SmallResponse.__call__, WR.PlainTextResponse.render, WR.JSONResponse.render, WR.RedirectResponse.__init__,
                          WR.StreamingResponse.__call__, WR.StreamResponse.render_stream, WR.FileResponse.__call__, WR.FileResponse.__init__,
                          AR.Response.__call__, AR.SmallResponse.__call__, AR.RedirectResponse.__init__, AR.StreamingResponse.__call__,
                          AR.StreamResponse.render_stream, AR.SendEventResponse.render_stream, AR.FileResponse.__call__, AR.FileResponse.__init__,
                          R.BaseResponse.list_headers, R.BaseResponse.set_cookie, R.FileResponseMixin.generate_common_headers, AH.send_http_start, AH.send_http_body],
    "engines": ["E-FS (forksym); streaming classes on the virtual-time loop"],
    "stubs": ["baize.wsgi.responses.StatusStringMapping -> same table, looked up through solver-decided equality for a symbolic status",
              "baize.responses.quote -> percent-encoding model with baize's real `safe` argument (as in C13)", "file access -> symbolic file of C02",
              "baize.datastructures._cookie_is_legal_key -> same pattern through ReShim", "scripted server: send() raising at a symbolic call index"],
    "assumptions": ["header values handed to constructors are printable Latin-1 field content (what HTTP can carry); derived values (cookies, Location, "
                    "Content-Disposition) get arbitrary Unicode input", "JSON content is concrete (json.dumps is C code)"],
    "bounds": {"quick": {"text_chars": 3, "stream_items": 3}, "thorough": {"text_chars": 4, "stream_items": 4}},
    "outside": ["WSGI SendEventResponse under early close (threads; see C06)", "longer texts", "response classes defined by users"],
    "expect_kinds": {"all": ["complete", "faulted"]},
}


class StatusMapShim:
    """StatusStringMapping for a possibly symbolic status: known codes are matched through the solver, others fall back like the real defaultdict."""

    def __init__(self, real):
        self.real = real

    def __getitem__(self, status):
        if not isinstance(status, SInt):
            return self.real[status]
        for code in self.real.keys():
            if status == code:
                return self.real[code]
        return self.real.default_factory(status)


def shims_for(size=None, specs=None) -> Shims:
    s = Shims()
    from engine.shims import str_shim
    s.add(WR, StatusStringMapping=StatusMapShim(WR.StatusStringMapping), str=str_shim)
    s.add(AR, str=str_shim)
    s.add(R, quote=quote_model)
    s.add(DS, _cookie_is_legal_key=legal_key_shim()).add_compiled_regexes(DS)
    from .c13 import _urlsplit_stub
    s.add(DS, urlsplit=_urlsplit_stub)  # URL(<symbolic text>): only str(url) is needed by a redirect
    return s


def printable_latin1(eng: Engine, s: SStr):
    for c in s.items:
        eng.solver.add(z3.Or(z3.And(c.e >= 32, c.e <= 126), z3.And(c.e >= 160, c.e <= 255)))


def environ(method="GET", **extra):
    env = {"REQUEST_METHOD": method, "PATH_INFO": "/", "SCRIPT_NAME": "", "QUERY_STRING": "", "SERVER_NAME": "h", "SERVER_PORT": "80", "wsgi.url_scheme": "http"}
    env.update(extra)
    return env


def scope(method="GET", headers=()):
    return {"type": "http", "method": method, "path": "/", "root_path": "", "query_string": b"", "headers": list(headers), "scheme": "http", "server": ("h", 80)}


def run_and_check(e: Engine, iface: str, app, method="GET", hdrs=(), send_fault_at=None, close_after=None, use_loop=False, receive_raises=False):
    if iface == "wsgi":
        env = environ(method, **{("HTTP_" + k.upper().replace("-", "_")): v for k, v in hdrs})
        ev, done = gw.run_wsgi(app, env, close_after=close_after)
        raised = [x for x in ev if x[0] == "raise"]
        gw.check_wsgi(e, ev, done and not raised)
        return ev, done and not raised, raised
    sc = scope(method, [(k.encode(), v.encode("latin-1")) for k, v in hdrs])
    ev, done = gw.run_asgi(app, sc, send_fault_at=send_fault_at, use_loop=use_loop, receive_raises=receive_raises)
    raised = [x for x in ev if x[0] == "raise"]
    gw.check_asgi(e, ev, done)
    return ev, done, raised


# ------------------------------------------------------------------ families
def build_small(iface: str, recipe: str, sym: Dict[str, Any]):
    M = WR if iface == "wsgi" else AR
    st = sym.get("status", 200)
    hv = sym.get("hval")
    headers = {"x-custom": hv} if hv is not None else None
    if recipe == "response":
        r = M.Response(st, headers)
    elif recipe == "text-bytes":
        r = M.PlainTextResponse(sym.get("body", b"hi"), st, headers)
    elif recipe == "text-str":
        r = M.PlainTextResponse(sym.get("text", "hi"), st, headers)
    elif recipe == "html":
        r = M.HTMLResponse(sym.get("text", "<p>"), st, headers)
    elif recipe == "json":
        r = M.JSONResponse({"a": [1, "é", None]}, st, headers)
    elif recipe == "redirect":
        r = M.RedirectResponse(sym.get("url", "/x"), st if st != 200 else 307, headers)
    # non-default constructor arguments of the small responses
    elif recipe == "text-media-with-charset":
        r = M.PlainTextResponse(sym.get("text", "hi"), st, headers, media_type="text/plain; charset=utf-8")
    elif recipe == "html-charset-latin1":
        r = M.HTMLResponse(sym.get("text", "<p>"), st, headers, charset="latin-1")
    elif recipe == "text-media-not-text":
        r = M.PlainTextResponse(sym.get("body", b"{}"), st, headers, media_type="application/problem+json")
    elif recipe == "json-kwargs":
        r = M.JSONResponse({"b": 1, "a": "\u00e9"}, st, headers, ensure_ascii=True, sort_keys=True, indent=1)
    elif recipe == "append-existing":
        # a header that is already there gets a second value through append() under a differently cased name (what a subclass
        # overriding set_response_headers, or a view adding to Vary, does)
        r = M.PlainTextResponse(b"x", st, {"Vary": "accept-encoding", "x-custom": "1"})
        r.headers.append("Vary", hv if hv is not None else "origin")
        r.headers.append("X-Custom", "2")
    elif recipe == "redirect-urlobj":  # the target as a baize URL object (request.url.replace(...)) instead of a str
        r = M.RedirectResponse(DS.URL(sym.get("url", "/x")), st if st != 200 else 307, headers)
    else:
        raise KeyError(recipe)
    if "cname" in sym:
        r.set_cookie(sym["cname"], sym["cval"], max_age=5, httponly=True)
    return r


def job_small(job) -> report.JobResult:
    res = report.JobResult.new(job["name"])
    twin = job.get("twin", False)
    iface, recipe, what, n = job["iface"], job["recipe"], job["what"], job.get("n", 1)
    eng = Engine(budget_s=900)
    eng.char_alphabet = "c1"  # placeholders of the same encoding class (ASCII / Latin-1 / beyond) as the character they stand for
    sym: Dict[str, Any] = {}
    hi = 0x10FFFF
    if what == "status":
        v = z3.Int("status")
        eng.solver.add(v >= 100, v <= 999)
        sym["status"] = SInt(v)
    elif what == "header":
        s = SStr.fresh(n, "h", 0, 255, eng.solver)
        printable_latin1(eng, s)
        sym["hval"] = s
    elif what == "cookie":
        nm = SStr.fresh(1, "cn", 33, 126, eng.solver)
        vl = SStr.fresh(n, "cv", 0, 255, eng.solver)  # cookie values are Latin-1 text (C16's domain); beyond that no cookie syntax exists
        sym["cname"], sym["cval"] = nm, vl
    elif what == "body":
        sym["body"] = SBytes.fresh(n, "b", 0, 255, eng.solver)
    elif what == "text":
        t = SStr.fresh(n, "t", 0, 127, eng.solver)
        sym["text"] = t
    elif what == "url":
        u = SStr.fresh(n, "u", 0, hi, eng.solver)
        for c in u.items:
            eng.solver.add(c.e < 0xF0000, z3.Or(c.e < 0xD800, c.e > 0xDFFF))  # text: no lone surrogates
        sym["url"] = SStr([47] + u.items)
    shims = shims_for()
    SSeq.NORMALIZE = False

    def fn():
        app = build_small(iface, recipe, sym)
        e = cur()
        fault = None
        if iface == "asgi" and job.get("fault"):
            k = e.choose(4, "fault")  # 0..2: send() number k raises; 3: no fault
            fault = None if k == 3 else k
        ev, done, raised = run_and_check(e, iface, app, method=job.get("method", "GET"), send_fault_at=fault)
        if raised and not (fault is not None and isinstance(raised[0][1], gw.ClientGone)):
            if isinstance(raised[0][1], UnicodeEncodeError) and what in ("url",):
                return "complete"  # lone surrogate in a redirect target: rejected before any event
            raise Fail(f"exception:{type(raised[0][1]).__name__}", repr(raised[0][1]))
        if twin:
            raise Fail("twin-assert-false")
        return "faulted" if raised else "complete"

    res = _explore(res, eng, fn, shims, job, sym_desc=lambda m: {k: (conc(v, m) if not isinstance(v, SInt) else m.eval(v.e, True).as_long()) for k, v in sym.items()}, twin=twin,
                   concrete=lambda wit: concrete_small(iface, recipe, wit, job))
    SSeq.NORMALIZE = True
    return res


def _explore(res, eng, fn, shims, job, sym_desc, twin, concrete):
    def on_path(e, r):
        kind, v = r
        klass = detail = None
        if kind == "exc":
            if isinstance(v, Fail):
                klass, detail = v.klass, v.detail
            else:
                klass, detail = f"exception:{type(v).__name__}", repr(v)
        if klass is not None and not klass.startswith(("wsgi-header", "asgi-header")):
            e.last_sat = False
        m = e.witness()
        wit = {"job": job["name"], "inputs": {k: (repr(x) if isinstance(x, (str, bytes)) else x) for k, x in sym_desc(m).items()},
               "raw": _rawify(sym_desc(m))}
        if klass is not None:
            with shims.off():
                cp = concrete(wit)
            key = klass if klass.startswith("exception:") else klass.split(":")[0]
            res.violation(f"C05/{job['iface']}/{job.get('recipe', job.get('cls', ''))}/{key}", wit, f"{klass} {detail}; concrete: {cp}", (cp is not None) or twin)
            return
        res.kind(v)
        if res["validated"] < 50:
            with shims.off():
                cp = concrete(wit)
            if cp is not None:
                res["harness_errors"].append(f"symbolic path holds but the concrete run fails: {wit['inputs']}: {cp}")
            res["validated"] += 1
        res.sample(wit["inputs"], limit=1)
    try:
        with shims:
            eng.explore(fn, on_path)
    finally:
        SSeq.NORMALIZE = True
    res.absorb_engine(eng)
    return res


def _rawify(d):
    out = {}
    for k, v in d.items():
        if isinstance(v, bytes):
            out[k] = {"bytes_hex": v.hex()}
        elif isinstance(v, str):
            out[k] = {"str_codepoints": [ord(c) for c in v]}
        else:
            out[k] = v
    return out


def _unraw(d):
    out = {}
    for k, v in d.items():
        if isinstance(v, dict) and "bytes_hex" in v:
            out[k] = bytes.fromhex(v["bytes_hex"])
        elif isinstance(v, dict) and "str_codepoints" in v:
            out[k] = "".join(chr(c) for c in v["str_codepoints"])
        else:
            out[k] = v
    return out


class _PlainEngine:
    """monitor queries on concrete values: every clause is already decided"""
    chars: Dict[str, Any] = {}
    tokens: Dict[str, Any] = {}

    def check(self, *a):
        s = z3.Solver()
        s.add(*a)
        return s.check() == z3.sat

    def is_token_char(self, c):
        return False

    def term_of_text(self, s):
        return z3.IntVal(int(s)) if s.isdigit() else None


def concrete_small(iface, recipe, wit, job) -> Optional[str]:
    sym = _unraw(wit["raw"])
    nrm = SSeq.NORMALIZE
    SSeq.NORMALIZE = True
    prev = Engine.cur
    Engine.cur = None
    try:
        try:
            app = build_small(iface, recipe, sym)
        except UnicodeEncodeError:
            return None
        except Exception as ex:  # noqa: BLE001
            return f"exception {type(ex).__name__} while constructing the response: {ex}"
        pe = _PlainEngine()
        for fault in ([None, 0, 1, 2] if (iface == "asgi" and job.get("fault")) else [None]):
            if fault is not None:
                app = build_small(iface, recipe, sym)
            try:
                ev, done, raised = run_and_check(pe, iface, app, method=job.get("method", "GET"), send_fault_at=fault)
            except Fail as f:
                return f"{f.klass}: {f.detail}"
            if raised and not isinstance(raised[0][1], gw.ClientGone):
                return f"exception {type(raised[0][1]).__name__}: {raised[0][1]}"
        return None
    finally:
        Engine.cur = prev
        SSeq.NORMALIZE = nrm


# ---- streaming with faults
def job_stream(job) -> report.JobResult:
    import sys
    sys.unraisablehook = lambda *a: None
    res = report.JobResult.new(job["name"])
    twin = job.get("twin", False)
    iface, cls, n = job["iface"], job["cls"], job["items"]
    eng = Engine(budget_s=1200)
    shims = shims_for()

    class Boom(Exception):
        pass

    def make_app(raise_at):
        M = WR if iface == "wsgi" else AR
        if iface == "wsgi":
            def gen():
                for i in range(n):
                    if raise_at == i:
                        raise Boom(i)
                    yield ({"data": f"e{i}", "id": str(i)} if cls == "sse" else b"c%d" % i)
                if raise_at == n:
                    raise Boom(n)
        else:
            async def gen():
                for i in range(n):
                    if raise_at == i:
                        raise Boom(i)
                    yield ({"data": f"e{i}", "id": str(i)} if cls == "sse" else b"c%d" % i)
                if raise_at == n:
                    raise Boom(n)
        if cls == "sse":
            return M.SendEventResponse(gen(), ping_interval=5)
        return M.StreamResponse(gen(), headers={"x-a": "b"})

    def fn():
        e = cur()
        ra = e.choose(n + 2, "raise_at")  # n+1 = never
        raise_at = None if ra == n + 1 else ra
        fault = close_after = None
        if iface == "asgi":
            k = e.choose(n + 4, "send_fault")
            fault = None if k == n + 3 else k
        elif cls != "sse":
            k = e.choose(n + 2, "close_after")
            close_after = None if k == n + 1 else k
        e.path_notes.update(raise_at=raise_at, fault=fault, close_after=close_after)
        app = make_app(raise_at)
        if job.get("reuse"):
            # the same response object (mounted as an application) served a client before that disconnected at once; what that
            # client saw must be a legal prefix, and the NEXT client still gets a complete legal sequence
            ev0, done0 = gw.run_asgi(app, scope("GET"), receive_script=[{"type": "http.disconnect"}], use_loop=True)
            gw.check_asgi(e, ev0, done0)
        ev, done, raised = run_and_check(e, iface, app, send_fault_at=fault, close_after=close_after, use_loop=(iface == "asgi"),
                                         receive_raises=bool(job.get("receive_raises")))
        for x in raised:
            if not isinstance(x[1], (Boom, gw.ClientGone)):
                raise Fail(f"exception:{type(x[1]).__name__}", repr(x[1]))
        if raise_at is None and fault is None and close_after is None and not done:
            raise Fail("did-not-complete")
        if twin:
            raise Fail("twin-assert-false")
        return "faulted" if (raised or not done) else "complete"

    def concrete(wit):
        prev = Engine.cur
        Engine.cur = None
        try:
            app = make_app(wit["raw"].get("raise_at"))
            if job.get("reuse"):
                ev0, done0 = gw.run_asgi(app, scope("GET"), receive_script=[{"type": "http.disconnect"}], use_loop=True)
                gw.check_asgi(_PlainEngine(), ev0, done0)
            ev, done, raised = run_and_check(_PlainEngine(), iface, app, send_fault_at=wit["raw"].get("fault"), close_after=wit["raw"].get("close_after"),
                                             use_loop=(iface == "asgi"), receive_raises=bool(job.get("receive_raises")))
            for x in raised:
                if not isinstance(x[1], (Boom, gw.ClientGone)):
                    return f"exception {type(x[1]).__name__}: {x[1]}"
            return None
        except Fail as f:
            return f"{f.klass}: {f.detail}"
        finally:
            Engine.cur = prev

    return _explore(res, eng, fn, shims, job, sym_desc=lambda m: dict(Engine.cur.path_notes), twin=twin, concrete=concrete)


# ---- file responses: names and error paths
def job_file(job) -> report.JobResult:
    res = report.JobResult.new(job["name"])
    twin = job.get("twin", False)
    iface, mode, n = job["iface"], job["mode"], job.get("n", 1)
    eng = Engine(budget_s=900)
    eng.token_alphabet = "ctl"
    eng.char_alphabet = "c1"
    eng.render_opaque = True
    name = SStr.fresh(n, "dn", 0, 0x10FFFF, eng.solver)
    for c in name.items:
        eng.solver.add(c.e < 0xF0000, z3.Or(c.e < 0xD800, c.e > 0xDFFF))
    size_v = z3.Int("size")
    eng.solver.add(size_v >= 1, size_v <= 10 ** 6)
    size = SInt(size_v)
    a_v, b_v = z3.Int("a0"), z3.Int("b0")
    a2_v, b2_v = z3.Int("a1"), z3.Int("b1")
    eng.solver.add(a_v >= 0, b_v >= 0, a2_v >= 0, b2_v >= 0)
    specs = [(C2.C3._D(True, SInt(a_v)), C2.C3._D(True, SInt(b_v)))]
    if mode.startswith("range2"):
        specs.append((C2.C3._D(True, SInt(a2_v)), C2.C3._D(True, SInt(b2_v))))
    shims, osh = C2.install_shims(size, specs, 3)
    for mod, k, v in shims_for().entries:
        shims.add(mod, **{k: v})
    eng.solver.add(size_v <= 3 * 4096 * 64)
    SSeq.NORMALIZE = False

    def fn():
        M = WR if iface == "wsgi" else AR
        kw = {}
        if mode in ("download-name", "download-name-head"):
            kw["download_name"] = name
        app = M.FileResponse("/d/file.bin", content_type="application/octet-stream", stat_result=C2.Stat(size), **kw)
        hdrs = []
        if mode in ("range", "range-head", "range2", "range2-head"):
            hdrs = [("range", "bytes=x")]
        elif mode == "range-garbage":
            hdrs = [("range", "items=0-1")]
        elif mode.startswith("range-stale"):
            hdrs = [("range", "bytes=x"), ("if-range", C2.IF_RANGE_TEXT["other"])]
        method = "HEAD" if mode.endswith("head") else "GET"
        ev, done, raised = run_and_check(cur(), iface, app, method=method, hdrs=hdrs)
        if raised:
            raise Fail(f"exception:{type(raised[0][1]).__name__}", repr(raised[0][1]))
        if twin:
            raise Fail("twin-assert-false")
        return "complete"

    def concrete(wit):
        import os
        import tempfile
        raw = _unraw(wit["raw"])
        prev = Engine.cur
        Engine.cur = None
        nrm = SSeq.NORMALIZE
        SSeq.NORMALIZE = True
        try:
            with tempfile.TemporaryDirectory() as d:
                p = os.path.join(d, "file.bin")
                with open(p, "wb") as f:
                    f.truncate(raw["size"])
                sz = os.path.getsize(p)
                M = WR if iface == "wsgi" else AR
                kw = {"download_name": raw["name"]} if mode.startswith("download-name") else {}
                app = M.FileResponse(p, content_type="application/octet-stream", **kw)
                hdrs = []
                if mode in ("range", "range-head"):
                    hdrs = [("range", f"bytes={raw['a']}-{raw['b']}")]
                elif mode.startswith("range2"):
                    hdrs = [("range", f"bytes={raw['a']}-{raw['b']},{raw['a2']}-{raw['b2']}")]
                elif mode == "range-garbage":
                    hdrs = [("range", "items=0-1")]
                elif mode.startswith("range-stale"):
                    hdrs = [("range", f"bytes={raw['a']}-{raw['b']}"), ("if-range", C2.IF_RANGE_TEXT["other"])]
                if iface == "asgi":
                    import asyncio as _a
                    sc = scope("HEAD" if mode.endswith("head") else "GET", [(k.encode(), v.encode()) for k, v in hdrs])
                    evs = []

                    async def send(m_):
                        evs.append(("send", m_))

                    async def receive():
                        return {"type": "http.disconnect"}
                    try:
                        _a.run(app(sc, receive, send))
                        done = True
                    except Exception as ex:  # noqa: BLE001
                        return f"exception {type(ex).__name__}: {ex}"
                    gw.check_asgi(_PlainEngine(), evs, done)
                else:
                    ev, done = gw.run_wsgi(app, environ("HEAD" if mode.endswith("head") else "GET", **{"HTTP_" + k.upper().replace("-", "_"): v for k, v in hdrs}))
                    r = [x for x in ev if x[0] == "raise"]
                    if r:
                        return f"exception {type(r[0][1]).__name__}: {r[0][1]}"
                    gw.check_wsgi(_PlainEngine(), ev, done)
            return None
        except Fail as f:
            return f"{f.klass}: {f.detail}"
        finally:
            Engine.cur = prev
            SSeq.NORMALIZE = nrm

    def desc(m):
        return {"name": conc(name, m), "size": m.eval(size_v, True).as_long(), "a": m.eval(a_v, True).as_long(), "b": m.eval(b_v, True).as_long(),
                "a2": m.eval(a2_v, True).as_long(), "b2": m.eval(b2_v, True).as_long()}
    return _explore(res, eng, fn, shims, job, sym_desc=desc, twin=twin, concrete=concrete)


def jobs(tier: str):
    b = META["bounds"][tier]
    out = []
    for iface in ("wsgi", "asgi"):
        for recipe in ("response", "text-bytes", "text-str", "html", "json", "redirect"):
            out.append(dict(name=f"small/{iface}/{recipe}/status", kind="small", iface=iface, recipe=recipe, what="status", fault=True, weight=70))
            for n in range(0, b["text_chars"] + 1):
                out.append(dict(name=f"small/{iface}/{recipe}/header{n}", kind="small", iface=iface, recipe=recipe, what="header", n=n, fault=(n == 1)))
            for n in range(0, min(2, b["text_chars"]) + 1):  # 3 quoted cookie characters exhaust the class-correct placeholder pool (C13/C16 go to 4)
                out.append(dict(name=f"small/{iface}/{recipe}/cookie{n}", kind="small", iface=iface, recipe=recipe, what="cookie", n=n, weight=5 ** n))
        for recipe in ("text-media-with-charset", "html-charset-latin1", "text-media-not-text", "json-kwargs"):
            out.append(dict(name=f"small/{iface}/{recipe}/status", kind="small", iface=iface, recipe=recipe, what="status", weight=70))
            out.append(dict(name=f"small/{iface}/{recipe}/header1", kind="small", iface=iface, recipe=recipe, what="header", n=1))
        for n in (0, 1):
            out.append(dict(name=f"small/{iface}/html-charset-latin1/text{n}", kind="small", iface=iface, recipe="html-charset-latin1", what="text", n=n))
        for n in (0, 1, 2):
            out.append(dict(name=f"small/{iface}/append-existing/header{n}", kind="small", iface=iface, recipe="append-existing", what="header", n=n))
        for n in range(0, b["text_chars"] + 1):
            out.append(dict(name=f"small/{iface}/text-bytes/body{n}", kind="small", iface=iface, recipe="text-bytes", what="body", n=n, fault=True))
            out.append(dict(name=f"small/{iface}/text-bytes/body{n}/HEAD", kind="small", iface=iface, recipe="text-bytes", what="body", n=n, method="HEAD"))
            out.append(dict(name=f"small/{iface}/text-str/text{n}", kind="small", iface=iface, recipe="text-str", what="text", n=n))
            out.append(dict(name=f"small/{iface}/redirect/url{n}", kind="small", iface=iface, recipe="redirect", what="url", n=n, weight=8 ** n))
            if n <= 2:
                out.append(dict(name=f"small/{iface}/redirect-urlobj/url{n}", kind="small", iface=iface, recipe="redirect-urlobj", what="url", n=n, weight=8 ** n))
        for cls in ("stream", "sse"):
            for n in range(0, b["stream_items"] + 1):
                out.append(dict(name=f"stream/{iface}/{cls}/n{n}", kind="stream", iface=iface, cls=cls, items=n, weight=20 * (n + 1) ** 2))
        for mode in ("plain", "download-name", "download-name-head", "range", "range-head", "range2", "range2-head", "range-garbage", "plain-head", "range-stale", "range-stale-head"):
            for n in ((1, 2) if mode.startswith("download-name") else (1,)):
                out.append(dict(name=f"file/{iface}/{mode}/n{n}", kind="file", iface=iface, mode=mode, n=n, recipe="file", weight=30))
    out.append(dict(name="twin/small", kind="small", iface="asgi", recipe="response", what="header", n=1, twin=True))
    for iface in ("wsgi", "asgi"):
        for app in ("files", "pages"):
            out.append(dict(name=f"static/{iface}/{app}/file-vanishes", kind="static-vanish", iface=iface, app=app))
    for cls in ("stream", "sse"):
        out.append(dict(name=f"stream/asgi/{cls}/n2/receive-channel-raises", kind="stream", iface="asgi", cls=cls, items=2, receive_raises=True, weight=30))
    for cls in ("stream", "sse"):
        for n in (1, 2):
            out.append(dict(name=f"stream/asgi/{cls}/n{n}/second-client-after-a-disconnect", kind="stream", iface="asgi", cls=cls, items=n, reuse=True, weight=30))
    out.append(dict(name="twin/stream", kind="stream", iface="wsgi", cls="stream", items=1, twin=True))
    return out


# ------------------------------------------------------------------ static-file apps with a 404 handler: the file vanishes at a chosen point
def job_static_vanish(job) -> report.JobResult:
    """Files / Pages with handle_404 configured, on REAL files: the served file is removed before the request, or between the app's stat() and the
    response's open() (i.e. when the response start goes out), or never -- the removal point is a solver-decided choice; whatever was emitted
    must be a legal prefix (exactly one start ...), with or without an exception"""
    import os
    import tempfile
    import baize.asgi.staticfiles as AS_
    import baize.wsgi.staticfiles as WS_
    res = report.JobResult.new(job["name"])
    twin = job.get("twin", False)
    iface, app_kind = job["iface"], job["app"]
    eng = Engine(budget_s=300)

    REQUESTS = ["/f.html", "/sub", "/sub/", "/missing", "/f"]

    def run(when: int, e, target="/f.html"):
        M = WS_ if iface == "wsgi" else AS_
        with tempfile.TemporaryDirectory() as d:
            p = os.path.join(d, "f.html")
            with open(p, "w") as f:
                f.write("0123456789")
            os.mkdir(os.path.join(d, "sub"))
            with open(os.path.join(d, "sub", "index.html"), "w") as f:
                f.write("index of sub")
            if iface == "wsgi":
                def not_found(environ, start_response):
                    start_response("404 Not Found", [("content-type", "text/plain")])
                    return [b"custom 404"]
            else:
                async def not_found(scope_, receive, send):
                    await send({"type": "http.response.start", "status": 404, "headers": [(b"content-type", b"text/plain")]})
                    await send({"type": "http.response.body", "body": b"custom 404"})
            app = (M.Files if app_kind == "files" else M.Pages)(d, handle_404=not_found)

            def vanish():
                if os.path.exists(p):
                    os.remove(p)
            if when == 0:
                vanish()
            ev: List[Any] = []
            done = False
            if iface == "wsgi":
                def start_response(status, headers, exc_info=None):
                    ev.append(("start", status, list(headers), exc_info))
                    if when == 1:
                        vanish()
                    return lambda b: ev.append(("write", b))
                it = None
                try:
                    it = app({"REQUEST_METHOD": "GET", "PATH_INFO": target, "SCRIPT_NAME": "", "wsgi.url_scheme": "http", "SERVER_NAME": "h", "SERVER_PORT": "80",
                              "QUERY_STRING": ""}, start_response)
                    for chunk in it:
                        ev.append(("body", chunk))
                    done = True
                except Exception as ex:  # noqa: BLE001
                    ev.append(("raise", ex))
                finally:
                    if it is not None and hasattr(it, "close"):
                        it.close()
                gw.check_wsgi(e, ev, done)
            else:
                async def send(m):
                    ev.append(("send", m))
                    if when == 1 and m["type"] == "http.response.start":
                        vanish()

                async def receive():
                    return {"type": "http.disconnect"}
                try:
                    asyncio.run(app({"type": "http", "method": "GET", "path": target, "root_path": "", "headers": [], "scheme": "http", "server": ("h", 80),
                                     "query_string": b""}, receive, send))
                    done = True
                except Exception as ex:  # noqa: BLE001
                    ev.append(("raise", ex))
                gw.check_asgi(e, ev, done)
            for x in ev:
                if x[0] == "raise" and not isinstance(x[1], (OSError, HTTPException)):
                    raise Fail(f"exception:{type(x[1]).__name__}", repr(x[1]))
            return "faulted" if not done else "complete"

    def fn():
        e = cur()
        when = e.choose(3, "file_removed")  # 0 before the request, 1 between stat() and open(), 2 never
        e.path_notes.update(file_removed=when)  # 0 before the request, 1 between stat() and open(), 2 never
        target = REQUESTS[e.choose(len(REQUESTS), "request")] if when == 2 else "/f.html"  # also a directory with / without slash, a missing path
        e.path_notes.update(request=target)
        out = run(when, e, target)
        if twin:
            raise Fail("twin-assert-false")
        return out

    def concrete(wit):
        prev = Engine.cur
        Engine.cur = None
        try:
            raw = _unraw(wit["raw"])
            run(raw["file_removed"], _PlainEngine(), raw.get("request", "/f.html"))
            return None
        except Fail as f:
            return f"{f.klass}: {f.detail}"
        finally:
            Engine.cur = prev
    return _explore(res, eng, fn, Shims(), job, sym_desc=lambda m: dict(Engine.cur.path_notes), twin=twin, concrete=concrete)


def run_job(job):
    return {"small": job_small, "stream": job_stream, "file": job_file, "static-vanish": job_static_vanish}[job["kind"]](job)


def replay(rec) -> int:
    print("replay C05: re-run `./check C05 --only %s`; witness inputs: %s" % (rec["witness"].get("job"), rec["witness"].get("inputs")))
    return 1
