"""C09 -- mounting preserves the full path and dispatches on segment boundaries; host dispatch.

Real code run: BaseSubpaths.__init__/search, wsgi/asgi Subpaths.__call__ (nested), BaseHosts.__init__/search,
wsgi/asgi Hosts.__call__, Response(404) / PlainTextResponse(404) paths.

Symbolic: every character of the mount prefixes, the initial root path, the request path and the Host
header (Latin-1 for headers, full Unicode for paths); string LENGTHS are enumerated recipes.
Oracles are z3 formulas written from the statement (prefix == path or path starts with prefix + '/',
first entry wins; host: first pattern whose z3-regex language contains the whole Host value -- an
independent semantics from the ReShim matcher that runs under the real code).
"""
from __future__ import annotations

import itertools
from typing import Any, Dict, List, Optional

import z3

import baize.asgi.routing as AR
import baize.routing as RT
import baize.wsgi.routing as WR

from engine import report
from engine.forksym import Engine, Pruned, SInt, conc, cur, term_of
from engine.reshim import ReShim
from engine.shims import Shims
from engine.symseq import SStr, _items_of
from engine.vloop import drive
from engine.z3re import regex_of, string_of_codes

PID = "C09"

META = {
    "functions": lambda: [RT.BaseSubpaths.__init__, RT.BaseSubpaths.search, WR.Subpaths.__call__, AR.Subpaths.__call__,
                          RT.BaseHosts.__init__, RT.BaseHosts.search, WR.Hosts.__call__, AR.Hosts.__call__],
    "engines": ["E-FS (forksym) for the real code; E-Z3 regex-language oracle for host patterns"],
    "stubs": ["baize.routing.re -> ReShim (host patterns interpreted over the symbolic Host value)",
              "sub-applications -> recorders of the environ/scope they receive"],
    "assumptions": ["mount prefixes satisfy the constructor's documented precondition ('' or starts with '/' and does not end with '/'); "
                    "paths violating it are pruned at the constructor's own assert", "host pattern table is an enumerated recipe list"],
    "bounds": {"quick": {"prefix_len_max": 2, "root_len_max": 1, "path_len_max": 4, "host_len_max": 5, "nesting": 2},
               "thorough": {"prefix_len_max": 3, "root_len_max": 2, "path_len_max": 6, "host_len_max": 8, "nesting": 3}},
    "outside": ["strings longer than the bounds", "more than 2 entries per mount table / 3 nesting levels", "host patterns outside the recipe list"],
    "expect_kinds": {"all": ["mounted", "404", "host-match", "host-404"]},
}


class Fail(Exception):
    def __init__(self, klass, detail=""):
        self.klass, self.detail = klass, detail


def items(x) -> List[Any]:
    return _items_of(x)


def seq_eq(a, b):
    """z3 Bool: two item sequences are equal."""
    a, b = items(a), items(b)
    if len(a) != len(b):
        return z3.BoolVal(False)
    return z3.And([term_of(x) == term_of(y) for x, y in zip(a, b)] + [z3.BoolVal(True)])


def mount_matches(prefix, path):
    """z3 Bool for the statement: prefix equals path or is followed by '/' in it."""
    p, q = items(prefix), items(path)
    eq = seq_eq(p, q)
    if len(q) > len(p):
        pre = z3.And([term_of(x) == term_of(y) for x, y in zip(p, q)] + [term_of(q[len(p)]) == 47])
    else:
        pre = z3.BoolVal(False)
    return z3.Or(eq, pre)


class Recorder:
    def __init__(self, tag):
        self.tag = tag
        self.seen: List[Dict[str, Any]] = []

    def wsgi(self, environ, start_response):
        self.seen.append({"root": environ.get("SCRIPT_NAME", ""), "path": environ.get("PATH_INFO", ""), "host": environ.get("HTTP_HOST")})
        start_response("200 OK", [])
        return [b""]

    async def asgi(self, scope, receive, send):
        self.seen.append({"root": scope.get("root_path", ""), "path": scope.get("path", "")})


def call_app(iface, app, root, path, host=None, omit_empty_script_name=False):
    """returns (status or None, final environ/scope)"""
    if iface == "wsgi":
        # what every real server also puts there: the server's own name must never stand in for the Host header
        env = {"REQUEST_METHOD": "GET", "SCRIPT_NAME": root, "PATH_INFO": path, "SERVER_NAME": "a.io", "SERVER_PORT": "80",
               "wsgi.url_scheme": "http", "QUERY_STRING": "", "SERVER_PROTOCOL": "HTTP/1.0"}
        if host is not None:
            env["HTTP_HOST"] = host
        if _items_of(root) == [] and omit_empty_script_name:
            del env["SCRIPT_NAME"]  # PEP 3333: SCRIPT_NAME "may be an empty string" -- hand-built and some embedded environs leave it out
        calls = []
        list(app(env, lambda s, h, e=None: calls.append(s)))
        return (calls[0] if calls else None), {"root": env.get("SCRIPT_NAME", ""), "path": env["PATH_INFO"]}
    scope = {"type": "http", "method": "GET", "root_path": root, "path": path, "headers": [(b"user-agent", b"x")], "server": ("a.io", 80), "scheme": "http",
             "query_string": b""}
    if host is not None:
        scope["headers"].append((b"host", host.encode("latin-1") if isinstance(host, (str, SStr)) else host))
    if _items_of(root) == [] and omit_empty_script_name:
        del scope["root_path"]  # ASGI: root_path is optional and defaults to ""
    sent = []

    async def send(m):
        sent.append(m)

    async def receive():
        return {"type": "http.disconnect"}
    drive(app(scope, receive, send))
    status = sent[0]["status"] if sent else None
    return status, {"root": scope.get("root_path", ""), "path": scope["path"]}


def must(e: Engine, cond, klass, detail=""):
    if e.check(z3.Not(cond)):
        raise Fail(klass, detail)


# ------------------------------------------------------------------ mounts
def job_mount(job) -> report.JobResult:
    res = report.JobResult.new(job["name"])
    twin = job.get("twin", False)
    iface = job["iface"]
    l1, l2, lr, lp = job["l1"], job["l2"], job["lr"], job["lp"]
    nested = job.get("nested", False)
    eng = Engine(budget_s=job.get("budget", 900))
    hi = 0x10FFFF
    p1 = SStr.fresh(l1, "p", 1, hi, eng.solver)
    p2 = SStr.fresh(l2, "q", 1, hi, eng.solver)
    root = SStr.fresh(lr, "r", 1, hi, eng.solver)
    path = SStr.fresh(lp, "x", 1, hi, eng.solver)
    lw = job.get("warm")
    warm = SStr.fresh(lw or 0, "w", 1, hi, eng.solver)
    Sub = WR.Subpaths if iface == "wsgi" else AR.Subpaths
    out: Dict[str, Any] = {}
    from engine.symseq import SSeq
    SSeq.NORMALIZE = False  # keep remainders as proxies: the code calls path.startswith(prefix + "/") on them
    # prefixes AND path are proxies here, so a lookup table keyed by prefix (dict/set) is decided by solver-forked __eq__
    SSeq.CONST_HASH = True

    def fn():
        a, b = Recorder("a"), Recorder("b")
        ea, eb = (a.wsgi, b.wsgi) if iface == "wsgi" else (a.asgi, b.asgi)
        try:
            if nested:
                inner = Sub((p2, eb))
                app = Sub((p1, inner))
            else:
                app = Sub((p1, ea), (p2, eb))
        except AssertionError:
            raise cur()._raise(Pruned())  # constructor precondition violated: outside the property's domain
        if lw is not None:
            # an earlier request served by the SAME routing object: dispatch must not depend on what was asked before
            call_app(iface, app, "", warm)
            a.seen.clear()
            b.seen.clear()
        status, final = call_app(iface, app, root, path, omit_empty_script_name=bool(job.get("omit_script_name")))
        return status, final, a.seen, b.seen

    def on_path(e, r):
        kind, v = r
        klass = detail = None
        outcome = None
        try:
            if kind == "exc":
                raise Fail(f"exception:{type(v).__name__}", repr(v))
            if twin:
                raise Fail("twin-assert-false")
            status, final, sa, sb = v
            whole = items(root) + items(path)
            if not nested:
                m1, m2 = mount_matches(p1, path), mount_matches(p2, path)
                hit = sa or sb
                if sa and sb or len(sa) > 1 or len(sb) > 1:
                    raise Fail("dispatched-more-than-once")
                if sa:
                    must(e, m1, "dispatch-without-match")
                    seen, pre = sa[0], p1
                elif sb:
                    must(e, z3.And(z3.Not(m1), m2), "not-first-match")
                    seen, pre = sb[0], p2
                else:
                    must(e, z3.And(z3.Not(m1), z3.Not(m2)), "404-although-an-entry-matches")
                    if str(status)[:3] != "404":
                        raise Fail("no-match-but-not-404", str(status))
                    must(e, z3.And(seq_eq(final["root"], root), seq_eq(final["path"], path)), "request-modified-on-404")
                    outcome = "404"
                if hit:
                    must(e, seq_eq(seen["root"], items(root) + items(pre)), "root-path-not-extended-by-prefix")
                    must(e, seq_eq(seen["path"], items(path)[len(items(pre)):]), "remainder-wrong")
                    must(e, seq_eq(items(seen["root"]) + items(seen["path"]), whole), "root+path-changed")
                    outcome = "mounted"
            else:
                # nested: outer p1 then inner p2 on the remainder
                m1 = mount_matches(p1, path)
                rem1 = items(path)[len(items(p1)):]
                m2 = mount_matches(p2, rem1)
                if sb:
                    must(e, z3.And(m1, m2), "nested-dispatch-without-match")
                    seen = sb[0]
                    must(e, seq_eq(seen["root"], items(root) + items(p1) + items(p2)), "nested-root-path")
                    must(e, seq_eq(seen["path"], rem1[len(items(p2)):]), "nested-remainder")
                    must(e, seq_eq(items(seen["root"]) + items(seen["path"]), whole), "root+path-changed")
                    outcome = "mounted"
                else:
                    must(e, z3.Not(z3.And(m1, m2)), "nested-404-although-matching")
                    if str(status)[:3] != "404":
                        raise Fail("no-match-but-not-404", str(status))
                    outcome = "404"
        except Fail as f:
            klass, detail = f.klass, f.detail
            if klass.startswith(("exception", "twin", "dispatched", "no-match")):
                e.check()
        if klass is None:
            e.check()
        m = e.solver.model()
        wit = {"iface": iface, "nested": nested, "prefix1": conc(p1, m), "prefix2": conc(p2, m), "root": conc(root, m), "path": conc(path, m)}
        if lw is not None:
            wit["earlier_request_path"] = conc(warm, m)
        wit["omit_script_name"] = bool(job.get("omit_script_name"))
        cp = concrete_mount(wit)
        if klass is not None:
            res.violation(f"C09/{iface}/{'nested' if nested else 'table'}/{klass.split(':')[0]}", wit, f"{klass} {detail}; concrete: {cp}", (cp is not None) or twin)
            return
        res.kind(outcome)
        if cp is not None:
            res["harness_errors"].append(f"symbolic path holds but concrete run fails: {wit}: {cp}")
        res["validated"] += 1
        res.sample(wit, limit=1)

    eng.explore(fn, on_path)
    res.absorb_engine(eng)
    return res


def concrete_mount(w) -> Optional[str]:
    """plain-Python oracle on concrete strings, through the public API"""
    iface, p1, p2, root, path = w["iface"], w["prefix1"], w["prefix2"], w["root"], w["path"]
    Sub = WR.Subpaths if iface == "wsgi" else AR.Subpaths
    a, b = Recorder("a"), Recorder("b")
    ea, eb = (a.wsgi, b.wsgi) if iface == "wsgi" else (a.asgi, b.asgi)

    def ok(pre, p):
        return p == pre or p.startswith(pre + "/")
    try:
        if w["nested"]:
            app = Sub((p1, Sub((p2, eb))))
        else:
            app = Sub((p1, ea), (p2, eb))
    except AssertionError:
        return None
    try:
        if "earlier_request_path" in w:
            call_app(iface, app, "", w["earlier_request_path"])
            a.seen.clear()
            b.seen.clear()
        status, final = call_app(iface, app, root, path, omit_empty_script_name=bool(w.get("omit_script_name")))
    except Exception as ex:  # noqa: BLE001
        return f"exception {type(ex).__name__}: {ex}"
    if w["nested"]:
        exp = None
        if ok(p1, path) and ok(p2, path[len(p1):]):
            exp = ("b", root + p1 + p2, path[len(p1) + len(p2):])
    else:
        exp = ("a", root + p1, path[len(p1):]) if ok(p1, path) else ("b", root + p2, path[len(p2):]) if ok(p2, path) else None
    got = ("a", a.seen[0]["root"], a.seen[0]["path"]) if a.seen else ("b", b.seen[0]["root"], b.seen[0]["path"]) if b.seen else None
    if got != exp:
        return f"dispatch {got} expected {exp}"
    if exp is None and (str(status)[:3] != "404" or (not w["nested"] and final != {"root": root, "path": path})):
        return f"no match: status {status}, request now {final}"
    return None


# ------------------------------------------------------------------ hosts
HOST_TABLES = [
    [r"a\.io", r"b\.io"],
    [r"(www\.)?a\.io", r"www\.a\.io"],
    [r"a\.io", r"a\.io(:\d+)?"],
    [r".*\.io", r"a\.io"],
    [r"[a-c]+", r"a.c"],
    [r"", r"a"],
    [r"(w\.)?a\.io", r"b\.io", r"c\.io"],  # a capturing group in a non-last entry (group numbering must not leak into dispatch)
    [r"l(:\d+)?", r"(a|b)c", r"d"],
    [r"a\.io|b\.io", r"a\.io\.c"],  # a top-level alternation: an anchor appended to (or a prefix match of) the pattern text binds to one branch only
    [r"ab|c", r"abc", r"cd"],
]


def job_host(job) -> report.JobResult:
    res = report.JobResult.new(job["name"])
    twin = job.get("twin", False)
    iface, table, n = job["iface"], HOST_TABLES[job["table"]], job["n"]
    eng = Engine(budget_s=job.get("budget", 900))
    host = SStr.fresh(n, "h", 0, 255, eng.solver)
    Hosts = WR.Hosts if iface == "wsgi" else AR.Hosts
    shims = Shims().add(RT, re=ReShim)
    regs = [regex_of(p) for p in table]
    hz = string_of_codes([term_of(c) for c in host.items])

    def fn():
        recs = [Recorder(str(i)) for i in range(len(table))]
        app = Hosts(*[(p, (r.wsgi if iface == "wsgi" else r.asgi)) for p, r in zip(table, recs)])
        status, _ = call_app(iface, app, "", "/", None if job.get("absent") else host)
        return status, [len(r.seen) for r in recs]

    def on_path(e, r):
        kind, v = r
        klass = detail = None
        outcome = None
        try:
            if kind == "exc":
                raise Fail(f"exception:{type(v).__name__}", repr(v))
            if twin:
                raise Fail("twin-assert-false")
            status, counts = v
            if sum(counts) > 1:
                raise Fail("dispatched-more-than-once")
            member = [z3.InRe(hz, rg) for rg in regs]
            if sum(counts) == 1:
                i = counts.index(1)
                must(e, z3.And([z3.Not(member[j]) for j in range(i)] + [member[i]]), "host-not-first-full-match", f"entry {i}")
                outcome = "host-match"
            else:
                must(e, z3.And([z3.Not(mm) for mm in member]), "host-404-although-an-entry-matches")
                if str(status)[:3] != "404":
                    raise Fail("no-host-match-but-not-404", str(status))
                outcome = "host-404"
        except Fail as f:
            klass, detail = f.klass, f.detail
            if klass.startswith(("exception", "twin", "dispatched", "no-host")):
                e.check()
        if klass is None:
            e.check()
        m = e.solver.model()
        wit = {"iface": iface, "table": table, "host": conc(host, m), "absent": bool(job.get("absent"))}
        with shims.off():
            cp = concrete_host(wit)
        if klass is not None:
            res.violation(f"C09/{iface}/hosts/{klass.split(':')[0]}", wit, f"{klass} {detail}; concrete: {cp}", (cp is not None) or twin)
            return
        res.kind(outcome)
        if cp is not None:
            res["harness_errors"].append(f"symbolic path holds but concrete run fails: {wit}: {cp}")
        res["validated"] += 1
        res.sample(wit, limit=1)

    with shims:
        eng.explore(fn, on_path)
    res.absorb_engine(eng)
    return res


def concrete_host(w) -> Optional[str]:
    import re
    iface, table, host = w["iface"], w["table"], w["host"]
    Hosts = WR.Hosts if iface == "wsgi" else AR.Hosts
    recs = [Recorder(str(i)) for i in range(len(table))]
    app = Hosts(*[(p, (r.wsgi if iface == "wsgi" else r.asgi)) for p, r in zip(table, recs)])
    try:
        status, _ = call_app(iface, app, "", "/", None if w.get("absent") else host)
    except Exception as ex:  # noqa: BLE001
        return f"exception {type(ex).__name__}: {ex}"
    exp = next((i for i, p in enumerate(table) if re.fullmatch(p, host)), None)
    got = next((i for i, r in enumerate(recs) if r.seen), None)
    if got != exp:
        return f"dispatched to {got}, first full match is {exp}"
    if exp is None and str(status)[:3] != "404":
        return f"no match but status {status}"
    return None


def jobs(tier: str):
    b = META["bounds"][tier]
    out = []
    for iface in ("wsgi", "asgi"):
        for l1, l2 in itertools.product(range(b["prefix_len_max"] + 1), repeat=2):
            for lr in range(b["root_len_max"] + 1):
                for lp in range(b["path_len_max"] + 1):
                    out.append(dict(name=f"mount/{iface}/p{l1}q{l2}r{lr}x{lp}", kind="mount", iface=iface, l1=l1, l2=l2, lr=lr, lp=lp, weight=2 ** (l1 + l2 + lp)))
                    if lp >= 2 and (tier == "thorough" or lr >= 1):
                        out.append(dict(name=f"nested/{iface}/p{l1}q{l2}r{lr}x{lp}", kind="mount", iface=iface, l1=l1, l2=l2, lr=lr, lp=lp, nested=True, weight=2 ** (l1 + l2 + lp)))
        for l1, l2, lp in ((2, 0, 2), (0, 2, 3), (2, 2, 3)):
            key = "SCRIPT_NAME" if iface == "wsgi" else "root_path"
            out.append(dict(name=f"mount/{iface}/no-{key}-key/p{l1}q{l2}x{lp}", kind="mount", iface=iface, l1=l1, l2=l2, lr=0, lp=lp, omit_script_name=True,
                            weight=2 ** (l1 + l2 + lp)))
        out.append(dict(name=f"nested/{iface}/no-root-key/p2q2x4", kind="mount", iface=iface, l1=2, l2=2, lr=0, lp=4, nested=True, omit_script_name=True, weight=40))
        for lw in (2, 3):
            # (4, 2, .., 4): the shortest table in which the second prefix is a segment prefix of the first ('/a/b' before '/a')
            for l1, l2, lp in ((2, 2, 2), (2, 1, 3), (4, 2, 4), (2, 4, 4)):
                out.append(dict(name=f"mount-after-request/{iface}/p{l1}q{l2}w{lw}x{lp}", kind="mount", iface=iface, l1=l1, l2=l2, lr=0, lp=lp, warm=lw,
                                weight=2 ** (l1 + l2 + lp + lw)))
        for t in range(len(HOST_TABLES)):
            for n in range(0, b["host_len_max"] + 1):
                out.append(dict(name=f"host/{iface}/t{t}/n{n}", kind="host", iface=iface, table=t, n=n, weight=3 ** n))
            out.append(dict(name=f"host/{iface}/t{t}/no-host-header", kind="host", iface=iface, table=t, n=0, absent=True))  # HTTP/1.0 client
    out.append(dict(name="twin/mount", kind="mount", iface="wsgi", l1=2, l2=0, lr=0, lp=2, twin=True))
    out.append(dict(name="twin/host", kind="host", iface="asgi", table=0, n=4, twin=True))
    return out


def run_job(job):
    return job_mount(job) if job["kind"] == "mount" else job_host(job)


def replay(rec) -> int:
    w = rec["witness"]
    cp = concrete_host(w) if "table" in w else concrete_mount(w)
    print(f"replay C09: {w} -> {cp}")
    return 1 if cp else 0
