"""C12 -- untrusted input never escapes as a non-HTTP error.

Each entry point is driven with short symbolic input (every character / byte a solver variable over its full
Latin-1 / byte domain); a path ends well if the accessor returns or raises HTTPException with a 4xx status (or the
documented ClientDisconnect / 'Stream consumed' errors).  Any other exception type is a violation, reported with the
concrete input from the solver and replayed on the unshimmed code.

Entry points here: header accessors (content_type, accepts / accepted_types, content_length, cookies, referrer),
request.url (Host header, WSGI path bytes, query string), query_params, json (body bytes x charset), urlencoded form
(body bytes x charset), multipart form (part-header bytes, Content-Type parameters).  Range resolution, the router and
the static-file apps are decided for the same claim inside C03 / C08 / C07 (they report escaping exceptions there).
"""
from __future__ import annotations

import importlib
import json as _json
from typing import Any, Dict, List, Optional
from urllib.parse import parse_qsl as _real_parse_qsl

import z3

import baize.asgi.requests as AQ
import baize.datastructures as DS
import baize.multipart as M
import baize.requests as RQ
import baize.utils as U
import baize.wsgi.requests as WQ
from baize.asgi.requests import ClientDisconnect
from baize.exceptions import HTTPException

from engine import report
from engine.forksym import Engine, SInt, Unsupported, conc, cur, term_of
from engine.shims import Shims, int_shim, max_shim
from engine.symseq import SBytes, SSeq, SStr, _items_of, in_set
from engine.vloop import drive

from . import mp_common as MP
from .c16 import rt_shims
from .c18 import URL_SENSITIVE

PID = "C12"

META = {
    "functions": lambda: [RQ.MoreInfoFromHeaderMixin.content_type, RQ.MoreInfoFromHeaderMixin.accepted_types, RQ.MoreInfoFromHeaderMixin.accepts,
                          RQ.MoreInfoFromHeaderMixin.content_length, RQ.MoreInfoFromHeaderMixin.cookies, RQ.MoreInfoFromHeaderMixin.referrer,
                          WQ.HTTPConnection.url, AQ.HTTPConnection.url, WQ.HTTPConnection.query_params, AQ.HTTPConnection.query_params, WQ.Request.json,
                          AQ.Request.json, WQ.Request.form, AQ.Request.form, DS.URL.__init__, U.parse_header, M.MultipartDecoder._parse_headers,
                          M.MultipartDecoder.next_event],
    "engines": ["E-FS (forksym): symbolic Latin-1 text / bytes into each entry point; exact symbolic UTF-8 decoding"],
    "stubs": ["{wsgi,asgi}.requests.json.loads on decoded proxy text -> model 'a value or JSONDecodeError' (the only outcomes json.loads has on str input); "
              "on concrete text the real json runs", "{wsgi,asgi}.requests.parse_qsl / datastructures.parse_qsl on proxies -> the real parse_qsl on a "
              "rendered string (URL-sensitive code points materialised)", "multipart shims of C01; cookie shims of C16"],
    "assumptions": ["header values are Latin-1 text without CR/LF/NUL (a server rejects those before the application runs)",
                    "the Date header accessor (email.utils date parser) is not encoded; If-Modified-Since values for the static-file apps come from an ENUMERATED "
                    "recipe list (sampling, no solver verdict on the date text) combined with a symbolic If-None-Match"],
    "bounds": {"quick": {"chars": 2, "body_bytes": 3}, "thorough": {"chars": 3, "body_bytes": 4}},
    "outside": ["longer symbolic inputs; the 4300-digit integer limit, NAME_MAX, recursion depth and similar length-triggered failures are probed only by the "
                "CONCRETE recipes of job recipes/concrete-long-inputs (sampling, no solver verdict)", "Date header", "json documents beyond 'decode + parse' (deep nesting recursion limits)"],
    "expect_kinds": {"all": ["returned", "http-4xx"]},
}


IMS_RECIPES = ["", "Tue, 14 Nov 2023 22:13:20 GMT", "Tue, 14 Nov 2023 22:13:20 +0000", "Tue, 14 Nov 2023 22:13:20", "Tue, 14 Nov 2023 22:13:20 -0000",
               "Tue, 14 Nov 2023 23:13:20 +0100", "14 Nov 2023 22:13 GMT", "Tuesday, 14-Nov-23 22:13:20 GMT", "garbage", "Tue, 14 Nov 99999 22:13:20 GMT", "0",
               "Tue, 31 Feb 2023 22:13:20 GMT", "Thu, 01 Jan 1970 00:00:00 GMT", "Sat, 01 Jan 0001 00:00:00 GMT"]


class Fail(Exception):
    def __init__(self, klass, detail=""):
        self.klass, self.detail = klass, detail


class JsonShim:
    JSONDecodeError = _json.JSONDecodeError

    @staticmethod
    def loads(s, *a, **k):
        if isinstance(s, SSeq):
            if s.concrete():
                return _json.loads(s.real(), *a, **k)
            # symbolic text: json.loads(str) either returns a value or raises JSONDecodeError; fork on both
            if cur().choose(2, "json_ok"):
                raise _json.JSONDecodeError("model", "doc", 0)
            return {"model": "value"}
        return _json.loads(s, *a, **k)

    def __getattr__(self, k):
        return getattr(_json, k)


def parse_qsl_shim(qs, *a, **k):
    if isinstance(qs, SStr):
        qs = str(qs)
    return _real_parse_qsl(qs, *a, **k)


def base_shims() -> Shims:
    s = rt_shims()
    s.add(RQ, int=int_shim, max=max_shim)
    s.add(WQ, json=JsonShim(), parse_qsl=parse_qsl_shim)
    s.add(AQ, json=JsonShim(), parse_qsl=parse_qsl_shim)
    s.add(DS, parse_qsl=parse_qsl_shim, int=int_shim)
    for mod, k, v in MP.make_shims().entries:
        s.add(mod, **{k: v})
    return s


def allowed(exc: BaseException) -> bool:
    if isinstance(exc, HTTPException):
        return 400 <= exc.status_code < 500
    if isinstance(exc, ClientDisconnect):
        return True
    if isinstance(exc, RuntimeError) and str(exc) == "Stream consumed":
        return True
    return False


def make_request(iface: str, headers: Dict[str, Any], path="/", query="", body: Optional[List[Any]] = None, rendered=False):
    """headers: name -> value (SStr / str). rendered=True hands real strings (placeholders) to the request."""
    if iface == "wsgi":
        env: Dict[str, Any] = {"REQUEST_METHOD": "POST", "SCRIPT_NAME": "", "PATH_INFO": path, "QUERY_STRING": query, "SERVER_NAME": "srv", "SERVER_PORT": "80",
                               "wsgi.url_scheme": "http"}
        for k, v in headers.items():
            key = {"content-type": "CONTENT_TYPE", "content-length": "CONTENT_LENGTH"}.get(k, "HTTP_" + k.upper().replace("-", "_"))
            env[key] = v
        chunks = list(body or [])

        class Inp:
            def read(self, n=-1):
                return chunks.pop(0) if chunks else b""
        env["wsgi.input"] = Inp()
        return WQ.Request(env)
    hl = []
    for k, v in headers.items():
        if isinstance(v, SStr):
            hl.append((k.encode(), SBytes(v.items)))
        else:
            hl.append((k.encode(), v.encode("latin-1")))
    msgs = [{"type": "http.request", "body": c, "more_body": True} for c in (body or [])] + [{"type": "http.request", "body": b"", "more_body": False}]
    it = iter(msgs)

    async def receive():
        return next(it)
    q = query.encode("latin-1") if isinstance(query, str) else SBytes(query.items)
    return AQ.Request({"type": "http", "method": "POST", "scheme": "http", "server": ("srv", 80), "path": path, "root_path": "", "query_string": q, "headers": hl}, receive)


def preset_body(req, body):
    """hand the accessor a symbolic body directly (assembling it from chunks is C10's subject; b"".join cannot carry proxies)"""
    if isinstance(req, WQ.Request):
        req.__dict__["body"] = body
    else:
        class Done:
            def __init__(self, v):
                self.v = v

            def done(self):
                return True

            def __await__(self):
                return self.v
                yield
        req.__dict__["body"] = Done(body)
    return req


def aget(req, name):
    """evaluate an accessor; ASGI json/form are coroutines behind cached_property -> call the raw function"""
    cls = type(req)
    attr = cls.__dict__.get(name) or next(c.__dict__[name] for c in cls.__mro__ if name in c.__dict__)
    func = getattr(attr, "func", None)
    if func is None:
        return getattr(req, name)
    r = func(req)
    import inspect
    if inspect.iscoroutine(r):
        return drive(r)
    return r


# ------------------------------------------------------------------ jobs
def run_job(job) -> report.JobResult:
    if job.get("kind") == "recipes":
        return job_recipes(job)
    if job.get("kind") == "delegate":
        return job_delegate(job)
    res = report.JobResult.new(job["name"])
    twin = job.get("twin", False)
    iface, entry, n = job["iface"], job["entry"], job["n"]
    eng = Engine(budget_s=job.get("budget", 900))
    eng.char_alphabet = "c1"
    shims = base_shims()
    SSeq.NORMALIZE = False
    SSeq.CONST_HASH = True
    text = SStr.fresh(n, "t", 0, 255, eng.solver)
    for c in text.items:
        eng.solver.add(c.e != 0, c.e != 10, c.e != 13)
    body = SBytes.fresh(n, "b", 0, 255, eng.solver)
    if entry == "multipart-header" and n >= 3:
        for c in body.items:
            eng.solver.add(c.e < 128)  # case folding of header names is modelled exactly on Latin-1 only
    if entry in ("url-host", "url-query", "referer", "query_params", "url-path"):
        eng.sensitive_chars = URL_SENSITIVE
    if entry == "referer":
        # the port of the returned URL is read too: digits must be the real characters for int()
        eng.sensitive_chars = tuple(sorted(set(URL_SENSITIVE) | set(range(48, 58))))
    if entry == "multipart-boundary":
        for c in text.items:
            eng.solver.add(z3.Or([c.e == k for k in BOUNDARY_CHARS]))

    def fn():
        pre, post = job.get("pre", ""), job.get("post", "")
        val = SStr([ord(c) for c in pre] + text.items + [ord(c) for c in post])
        if val.concrete():
            val = val.real()
        if entry == "content-type":
            req = make_request(iface, {"content-type": val})
            ct = req.content_type
            ct == "application/json"
            ct.options.get("charset")
            return "returned"
        if entry == "accept":
            req = make_request(iface, {"accept": val})
            [(m.main_type, m.sub_type, m.options) for m in req.accepted_types]
            req.accepts("text/html")
            req.accepts("text")
            return "returned"
        if entry == "content-length":
            req = make_request(iface, {"content-length": val})
            req.content_length
            return "returned"
        if entry == "cookie":
            req = make_request(iface, {"cookie": val})
            req.cookies
            return "returned"
        if entry == "referer":
            req = make_request(iface, {"referer": str(val)})
            r = req.referrer
            if r is not None:
                str(r), r.path, r.hostname, r.port, repr(r)
            return "returned"
        if entry == "url-host":
            req = make_request(iface, {"host": str(val)})
            u = req.url
            str(u), u.path, u.hostname, u.netloc
            return "returned"
        if entry == "url-query":
            req = make_request(iface, {"host": "example.org"}, query=str(val))
            str(req.url), req.url.query
            req.query_params.multi_items()
            return "returned"
        if entry == "query_params":
            req = make_request(iface, {}, query=str(val))
            q = req.query_params
            str(q), q.multi_items()
            return "returned"
        if entry == "url-path":
            # WSGI: PATH_INFO is the raw path bytes decoded as Latin-1; ASGI: already decoded text
            req = make_request(iface, {"host": "example.org"}, path=("/" + str(val)) if (iface == "asgi" or isinstance(val, str)) else SStr([47] + val.items))
            u = req.url
            str(u), u.path
            return "returned"
        if entry == "json":
            ctype = "application/json" + job.get("ctparam", "")
            req = preset_body(make_request(iface, {"content-type": ctype}), body if n else b"")
            aget(req, "json")
            return "returned"
        if entry == "urlencoded":
            ctype = "application/x-www-form-urlencoded" + job.get("ctparam", "")
            req = preset_body(make_request(iface, {"content-type": ctype}), body if n else b"")
            f = aget(req, "form")
            f.multi_items()
            return "returned"
        if entry == "multipart-header":
            # a part whose header block is  <symbolic bytes> + fixed rest
            raw = list(b"--b\r\n") + list(job.get("hpre", b"")) + body.items + list(job.get("hpost", b"")) + list(b"\r\n\r\nvalue\r\n--b--\r\n")
            req = make_request(iface, {"content-type": "multipart/form-data; boundary=b"}, body=[SBytes(raw)])
            f = aget(req, "form")
            f.multi_items()
            return "returned"
        if entry == "multipart-boundary":
            # the boundary parameter is client text that ends up inside regular expressions: every RFC 2046 bchar that is special
            # there (plus one ordinary letter), fork-decided per character so that each path compiles a concrete pattern
            chosen = []
            for c in text.items:
                for k in BOUNDARY_CHARS:
                    if in_set(c, (k,)):
                        chosen.append(k)
                        break
            req = _boundary_request(iface, chosen)
            f = aget(req, "form")
            if f.multi_items() != [("a", "v")]:
                raise Fail("multipart-misparsed", repr(f.multi_items()))
            return "returned"
        if entry == "multipart-ctype":
            req = make_request(iface, {"content-type": val}, body=[b'--b\r\nContent-Disposition: form-data; name="a"\r\n\r\nv\r\n--b--\r\n'])
            f = aget(req, "form")
            f.multi_items()
            return "returned"
        if entry == "conditional":
            # static-file app with a symbolic If-None-Match and an If-Modified-Since value from a grammar-aware RECIPE list (enumerated, not solved:
            # the date parser is stdlib code outside this engine's reach)
            from . import c14 as C14
            osh = C14.OsShim()
            osh.state = C14.SymStat(1700000000123, 1700000000456, 10)
            hdrs = {"If-Modified-Since": IMS_RECIPES[job["ims"]]}
            if n or job.get("inm"):
                hdrs["If-None-Match"] = val
            with C14.make_shims(osh):
                st, h, b_ = C14.request(iface, job.get("app", "files"), osh, hdrs)
            if st not in (200, 304):
                raise Fail("unexpected-status", str(st))
            return "returned"
        raise KeyError(entry)

    def on_path(e, r):
        kind, v = r
        klass = detail = None
        outcome = None
        if kind == "exc":
            if allowed(v):
                outcome = "http-4xx"
            else:
                klass, detail = f"{type(v).__name__}", repr(v)[:200]
        elif twin:
            klass, detail = "twin-assert-false", ""
        else:
            outcome = v
        e.last_sat = False
        m = e.witness()
        wit = {"iface": iface, "entry": entry, "ims": job.get("ims"), "inm": job.get("inm"), "text": [conc(c, m) for c in text.items], "body": list(conc(body, m)), "pre": job.get("pre", ""), "post": job.get("post", ""),
               "ctparam": job.get("ctparam", ""), "hpre": list(job.get("hpre", b"")), "hpost": list(job.get("hpost", b""))}
        with shims.off():
            cp = concrete(wit)
        if klass is not None:
            res.violation(f"C12/{entry}/{klass}", wit, f"{klass} {detail} escapes from {entry} ({iface}); concrete: {cp}", (cp is not None) or twin)
            return
        res.kind(outcome)
        if cp is not None:
            res["harness_errors"].append(f"symbolic path ends well but the concrete run raises: {wit}: {cp}")
        res["validated"] += 1
        res.sample({"iface": iface, "entry": entry, "input": repr(job.get("pre", "") + "".join(map(chr, wit["text"])) + job.get("post", "")) if entry not in ("json", "urlencoded", "multipart-header") else repr(bytes(wit["body"]))}, limit=1)

    try:
        with shims:
            eng.explore(fn, on_path)
    finally:
        SSeq.NORMALIZE = True
        SSeq.CONST_HASH = False
    res.absorb_engine(eng)
    return res


# RFC 2046 bchars that mean something in a regular expression or in a header parameter, and one plain letter
BOUNDARY_CHARS = [ord(c) for c in "()+.?*[]{}|^$\\'-_,/:= q"]


def _boundary_request(iface, codes):
    bnd = "x" + "".join(map(chr, codes)) + "y"
    quoted = '"' + bnd.replace("\\", "\\\\").replace('"', '\\"') + '"'
    raw = b"--" + bnd.encode() + b'\r\nContent-Disposition: form-data; name="a"\r\n\r\nv\r\n--' + bnd.encode() + b"--\r\n"
    return make_request(iface, {"content-type": "multipart/form-data; boundary=" + quoted}, body=[raw])


def _arun(req, name):
    import asyncio

    async def main():
        return await getattr(req, name)
    return asyncio.run(main())


def concrete(w) -> Optional[str]:
    """the same entry point on the unshimmed code with concrete input; returns the escaping exception or None"""
    nrm, ch = SSeq.NORMALIZE, SSeq.CONST_HASH
    SSeq.NORMALIZE, SSeq.CONST_HASH = True, False
    prev = Engine.cur
    Engine.cur = None
    try:
        iface, entry = w["iface"], w["entry"]
        val = w["pre"] + "".join(map(chr, w["text"])) + w["post"]
        body = bytes(w["body"])
        try:
            if entry == "content-type":
                ct = make_request(iface, {"content-type": val}).content_type
                str(ct), repr(ct)
            elif entry == "accept":
                req = make_request(iface, {"accept": val})
                [str(m) for m in req.accepted_types]
                req.accepts("text/html"), req.accepts("text")
            elif entry == "content-length":
                make_request(iface, {"content-length": val}).content_length
            elif entry == "cookie":
                make_request(iface, {"cookie": val}).cookies
            elif entry == "referer":
                r = make_request(iface, {"referer": val}).referrer
                if r is not None:
                    str(r), r.path, r.hostname, r.port, repr(r)
            elif entry == "url-host":
                u = make_request(iface, {"host": val}).url
                str(u), u.path, u.hostname, u.netloc
            elif entry == "url-query":
                req = make_request(iface, {"host": "example.org"}, query=val)
                str(req.url), req.url.query, req.query_params.multi_items()
            elif entry == "query_params":
                q = make_request(iface, {}, query=val).query_params
                str(q), q.multi_items()
            elif entry == "url-path":
                u = make_request(iface, {"host": "example.org"}, path="/" + val).url
                str(u), u.path
            elif entry == "json":
                req = make_request(iface, {"content-type": "application/json" + w["ctparam"]}, body=[body] if body else [])
                (_arun(req, "json") if iface == "asgi" else req.json)
            elif entry == "urlencoded":
                req = make_request(iface, {"content-type": "application/x-www-form-urlencoded" + w["ctparam"]}, body=[body] if body else [])
                (_arun(req, "form") if iface == "asgi" else req.form).multi_items()
            elif entry == "multipart-header":
                raw = b"--b\r\n" + bytes(w["hpre"]) + body + bytes(w["hpost"]) + b"\r\n\r\nvalue\r\n--b--\r\n"
                req = make_request(iface, {"content-type": "multipart/form-data; boundary=b"}, body=[raw])
                (drive(AQ.Request.form.func(req)) if iface == "asgi" else req.form).multi_items()
            elif entry == "multipart-boundary":
                f = _boundary_request(iface, w["text"])
                got = (drive(AQ.Request.form.func(f)) if iface == "asgi" else f.form).multi_items()
                if got != [("a", "v")]:
                    return f"multipart-misparsed: {got!r}"
            elif entry == "multipart-ctype":
                req = make_request(iface, {"content-type": val}, body=[b'--b\r\nContent-Disposition: form-data; name="a"\r\n\r\nv\r\n--b--\r\n'])
                (drive(AQ.Request.form.func(req)) if iface == "asgi" else req.form).multi_items()
            elif entry == "conditional":
                import os
                import tempfile
                import baize.asgi.staticfiles as AS_
                import baize.wsgi.staticfiles as WS_
                with tempfile.TemporaryDirectory() as d:
                    with open(os.path.join(d, "f.txt"), "w") as f_:
                        f_.write("0123456789")
                    hd = {"If-Modified-Since": IMS_RECIPES[w["ims"]]}
                    if w["text"] or w.get("inm"):
                        hd["If-None-Match"] = val
                    if iface == "wsgi":
                        env = {"REQUEST_METHOD": "HEAD", "PATH_INFO": "/f.txt", "SCRIPT_NAME": ""}
                        env.update({"HTTP_" + k.upper().replace("-", "_"): v for k, v in hd.items()})
                        b"".join(WS_.Files(d)(env, lambda s_, h_, e_=None: None))
                    else:
                        import asyncio

                        async def send(m_):
                            pass

                        async def receive():
                            return {"type": "http.disconnect"}
                        asyncio.run(AS_.Files(d)({"type": "http", "method": "HEAD", "path": "/f.txt", "root_path": "",
                                                  "headers": [(k.lower().encode(), v.encode("latin-1")) for k, v in hd.items()]}, receive, send))
        except Exception as ex:  # noqa: BLE001
            if allowed(ex):
                return None
            return f"{type(ex).__name__}: {ex}"
        return None
    finally:
        Engine.cur = prev
        SSeq.NORMALIZE, SSeq.CONST_HASH = nrm, ch


# ------------------------------------------------------------------ concrete recipes beyond the symbolic bounds (sampling, stated as such)
def _recipe_requests():
    """name -> callable(iface) exercising one entry point with a long / special concrete input"""
    import os
    import tempfile
    import baize.asgi.responses as ARS
    import baize.asgi.staticfiles as AS_
    import baize.wsgi.responses as WRS
    import baize.wsgi.staticfiles as WS_

    def call_app(iface, app, path="/", headers=None):
        headers = headers or {}
        if iface == "wsgi":
            env = {"REQUEST_METHOD": "GET", "PATH_INFO": path, "SCRIPT_NAME": "", "QUERY_STRING": "", "SERVER_NAME": "srv", "SERVER_PORT": "80", "wsgi.url_scheme": "http"}
            env.update({"HTTP_" + k.upper().replace("-", "_"): v for k, v in headers.items()})
            b"".join(app(env, lambda s_, h_, e_=None: None))
        else:
            import asyncio

            async def send(m_):
                pass

            async def receive():
                return {"type": "http.disconnect"}
            asyncio.run(app({"type": "http", "method": "GET", "path": path, "root_path": "", "query_string": b"", "scheme": "http", "server": ("srv", 80),
                             "headers": [(k.lower().encode(), v.encode("latin-1")) for k, v in headers.items()]}, receive, send))

    def json_huge(iface):
        req = preset_body(make_request(iface, {"content-type": "application/json"}), b"1" * 5000)
        (_arun(req, "json") if iface == "asgi" else req.json)

    def json_deep(iface):
        req = preset_body(make_request(iface, {"content-type": "application/json"}), b"[" * 100000)
        (_arun(req, "json") if iface == "asgi" else req.json)

    def json_charset_nul(iface):
        req = preset_body(make_request(iface, {"content-type": "application/json; charset=a\x00b".encode().decode("unicode_escape")}), b"1")
        (_arun(req, "json") if iface == "asgi" else req.json)

    def range_huge(iface):
        with tempfile.TemporaryDirectory() as d:
            p = os.path.join(d, "f.bin")
            open(p, "wb").write(b"0123456789")
            M_ = WRS if iface == "wsgi" else ARS
            call_app(iface, M_.FileResponse(p), headers={"Range": "bytes=" + "1" * 5000 + "-"})

    def url_port(iface):
        u = make_request(iface, {"host": "a:b"}).url
        u.port

    def files_long_segment(iface):
        with tempfile.TemporaryDirectory() as d:
            M_ = WS_ if iface == "wsgi" else AS_
            try:
                call_app(iface, M_.Files(d), path="/" + "a" * 300)
            except HTTPException as ex:
                if ex.status_code != 404:
                    raise

    def pages_redirect_bad_host(iface):
        with tempfile.TemporaryDirectory() as d:
            os.mkdir(os.path.join(d, "sub"))
            M_ = WS_ if iface == "wsgi" else AS_
            call_app(iface, M_.Pages(d), path="/sub", headers={"Host": "["})

    def urlenc(charset, body):
        def run(iface):
            req = preset_body(make_request(iface, {"content-type": "application/x-www-form-urlencoded; charset=" + charset}), body)
            (_arun(req, "form") if iface == "asgi" else req.form).multi_items()
        return run

    def multipart_charset(charset):
        def run(iface):
            raw = b'--b\r\nContent-Disposition: form-data; name="a\xff"\r\n\r\nv\xff\r\n--b--\r\n'
            req = make_request(iface, {"content-type": "multipart/form-data; boundary=b; charset=" + charset}, body=[raw])
            (_arun(req, "form") if iface == "asgi" else req.form).multi_items()
        return run

    def many_fields(body):
        def run(iface):
            req = preset_body(make_request(iface, {"content-type": "application/x-www-form-urlencoded"}), body)
            (_arun(req, "form") if iface == "asgi" else req.form).multi_items()
        return run

    def ims_under_tz(tz, value):
        def run(iface):
            import time as _t
            old = os.environ.get("TZ")
            os.environ["TZ"] = tz
            _t.tzset()
            try:
                with tempfile.TemporaryDirectory() as d:
                    open(os.path.join(d, "f.txt"), "w").write("0123456789")
                    M_ = WS_ if iface == "wsgi" else AS_
                    call_app(iface, M_.Files(d), path="/f.txt", headers={"If-Modified-Since": value})
            finally:
                if old is None:
                    os.environ.pop("TZ", None)
                else:
                    os.environ["TZ"] = old
                _t.tzset()
        return run

    # codecs that exist but reject the text in their own way (plain UnicodeError / ValueError, not UnicodeDecodeError / LookupError)
    special = {f"urlencoded-charset-{n}": urlenc(cs, b"a=\xff") for n, cs in (("undefined", "undefined"), ("nul", "a\x00b"), ("idna", "idna"), ("punycode", "punycode"))}
    # the same codecs (and ordinary ones) with an ASCII body that carries percent escapes, plus-signs and a truncated escape: whatever decodes the
    # escapes may be handed the declared charset too
    for n, cs in (("undefined", "undefined"), ("idna", "idna"), ("punycode", "punycode"), ("utf-16", "utf-16"), ("utf-7", "utf-7"), ("ascii", "ascii"),
                  ("cp037", "cp037"), ("unicode-escape", "unicode_escape"), ("rot13", "rot13"), ("hex", "hex"), ("base64", "base64"), ("zlib", "zlib")):
        special[f"urlencoded-escapes-charset-{n}"] = urlenc(cs, b"a=%41&b=%E9+x&c=%")
    special.update({f"multipart-charset-{n}": multipart_charset(cs) for n, cs in (("undefined", "undefined"), ("punycode", "punycode"), ("idna", "idna"), ("nul", "a\x00b"))})
    def date_header(value):
        def run(iface):
            d = make_request(iface, {"date": value}).date
            if d is not None:
                d.isoformat(), d.timestamp()
        return run
    for dname, dv in (("year-9999-negative-offset", "Fri, 31 Dec 9999 23:59:59 -0001"), ("year-9999-gmt", "Fri, 31 Dec 9999 23:59:59 GMT"),
                      ("year-1-positive-offset", "Mon, 01 Jan 0001 00:00:00 +2359"), ("naive", "Tue, 14 Nov 2023 22:13:21 -0000"),
                      ("no-zone", "Tue, 14 Nov 2023 22:13:21"), ("garbage", "yesterday-ish"), ("empty", ""), ("year-0", "Sat, 01 Jan 0000 00:00:00 GMT"),
                      ("huge-offset", "Tue, 14 Nov 2023 22:13:21 +9999"), ("month-13", "Tue, 14 Foo 2023 22:13:21 GMT"),
                      ("number-beyond-c-int", "Tue, 15 Nov 1994 08:99999999999912:31 GMT"), ("year-beyond-c-int", "Tue, 15 Nov 99999999999999 08:12:31 GMT")):
        special[f"date-header-{dname}"] = date_header(dv)
        special[f"if-modified-since-{dname}"] = ims_under_tz("UTC0", dv)
    special["urlencoded-1001-fields"] = many_fields(b"&".join(b"k%d=v" % i for i in range(1001)))
    special["urlencoded-5000-bare-ampersands"] = many_fields(b"&" * 5000)
    for tzname, tz in (("east", "JST-9"), ("west", "EST5"), ("far-east", "XXX-14")):
        for dname, dv in (("year-9999-naive", "Fri, 31 Dec 9999 23:59:59 -0000"), ("year-9999-gmt", "Fri, 31 Dec 9999 23:59:59 GMT"),
                          ("year-1-naive", "Mon, 01 Jan 0001 00:00:00 -0000"), ("year-1-offset", "Mon, 01 Jan 0001 00:00:00 +2359")):
            special[f"if-modified-since-{dname}-tz-{tzname}"] = ims_under_tz(tz, dv)
    return {**special, "json-5000-digit-int": json_huge, "json-deeply-nested": json_deep, "json-charset-with-nul": json_charset_nul, "range-5000-digit-int": range_huge,
            "url-port-not-a-number": url_port, "files-segment-longer-than-name-max": files_long_segment, "pages-redirect-with-bad-host": pages_redirect_bad_host}


def job_recipes(job) -> report.JobResult:
    """CONCRETE inputs (no solver verdict): lengths far beyond the symbolic bounds that the property text names explicitly"""
    res = report.JobResult.new(job["name"])
    for name, fn in _recipe_requests().items():
        for iface in ("wsgi", "asgi"):
            res["paths"] += 1
            res["queries"] += 1  # counted as one trivially decided obligation each; flagged as sampling in META
            try:
                fn(iface)
                res.kind("returned")
            except Exception as ex:  # noqa: BLE001
                if allowed(ex):
                    res.kind("http-4xx")
                else:
                    res.violation(f"C12/recipe/{name}/{type(ex).__name__}", {"iface": iface, "recipe": name}, f"{type(ex).__name__}: {str(ex)[:150]} escapes ({iface})", True)
            res["validated"] += 1
    res.sample({"recipes": sorted(_recipe_requests())})
    return res


# ------------------------------------------------------------------ range handling, routing, static files: through the harnesses that own them
# The statement also names "range handling, routing and the static-file apps".  Their symbolic harnesses (C03, C08, C07) already classify an
# exception that is not an HTTP exception as a violation of their own property; here a slice of their jobs is run again and ONLY those
# "an unrelated exception escapes" verdicts are kept, re-keyed under C12 (all other verdicts belong to the other properties and are dropped).
DELEGATES = {
    "range": ("harness.c03", lambda n: n.startswith(("text/bytes=+", "text/all")) and n[-1] in "01234" or n in ("ints/ab", "ints/-b,a-", "tmpl/ab,-b/d2/sep2")),
    "routing": ("harness.c08", lambda n: n.startswith("route/") and n.split("/")[2] in ("decimal-date", "two-params", "int-str-lit", "any-lit") and n[-1] in "01234"),
    "static-files": ("harness.c07", lambda n: n.split("/")[-1] in ("free0", "free1", "free2", "free3", "dotdot+2", "longname+2", "1+html")),
}


def delegate_jobs(tier):
    import importlib
    out = []
    for area, (modname, keep) in DELEGATES.items():
        mod = importlib.import_module(modname)
        for j in mod.jobs("quick"):
            if not j.get("twin") and keep(j["name"]):
                out.append(dict(name=f"{area}/{j['name']}", kind="delegate", area=area, mod=modname, job=j, iface="both", entry=area, n=0, weight=j.get("weight", 1)))
    return out


def job_delegate(job) -> report.JobResult:
    import importlib
    import re as _re
    mod = importlib.import_module(job["mod"])
    inner = mod.run_job(job["job"])
    res = report.JobResult.new(job["name"])
    for k in ("paths", "queries", "solver_s", "validated", "pruned"):
        res[k] = inner[k]
    res["exhausted"], res["unsupported"], res["unwind_failures"] = inner["exhausted"], inner["unsupported"], inner["unwind_failures"]
    for v in inner["violations"]:
        m = _re.search(r"exception:\s*([A-Za-z_]+)", v["detail"]) or _re.search(r"exception:\s*([A-Za-z_]+)", v["key"])
        if "exception" not in v["key"] and not v["detail"].startswith(("exception", "unexpected-exception")):
            continue  # a verdict about the other property's own statement
        wit = v["witness"] if isinstance(v["witness"], dict) else {"witness": v["witness"]}
        res.violation(f"C12/{job['area']}/{m.group(1) if m else 'exception'}", dict(wit, delegate=job["mod"]), f"{v['detail']} [found by {job['mod']} job {v['job']}]", v["reproduced"])
    res.kind("returned" if not res["violations"] else "escaped")
    res["samples"] = inner["samples"][:1]
    return res


def jobs(tier: str):
    b = META["bounds"][tier]
    out = delegate_jobs(tier) + [dict(name="recipes/concrete-long-inputs", iface="both", entry="recipes", n=0, kind="recipes")]
    for iface in ("wsgi", "asgi"):
        for entry, variants in (
            ("content-type", [("", ""), ("text/plain; charset=", ""), ("a/b;", "=\"x")]),
            ("accept", [("", ""), ("text/html;q=", ""), ("a,", ";b")]),
            ("content-length", [("", "")]),
            ("cookie", [("", ""), ("a=\"", "\"")]),
            ("referer", [("", ""), ("http://", "/p"), ("//", "")]),
            ("url-host", [("", ""), ("h", ":80"), ("[", "]")]),
            ("url-query", [("", ""), ("a=", "&b")]),
            ("query_params", [("", ""), ("a=%", "")]),
            ("url-path", [("", "")]),
            ("multipart-ctype", [("multipart/form-data; boundary=b;", ""), ("multipart/form-data;", ""), ("multipart/form-data; boundary=b; charset=nonsense", ""),
                                 ("multipart/form-data; boundary=b; charset=", ""), ("multipart/form-data; boundary=b; charset=\"utf-8", "")]),
        ):
            for vi, (pre, post) in enumerate(variants):
                for n in range(0, b["chars"] + 1):
                    if entry in ("url-host", "referer", "url-query", "query_params", "url-path") and n > 2:
                        continue
                    if entry == "multipart-ctype" and "charset=" in pre and n > 0:
                        continue  # the charset reaches real codecs: concrete recipes only
                    out.append(dict(name=f"{iface}/{entry}/v{vi}/n{n}", iface=iface, entry=entry, pre=pre, post=post, n=n, weight=6 ** n))
        for n in (1, 2):
            out.append(dict(name=f"{iface}/multipart-boundary/n{n}", iface=iface, entry="multipart-boundary", pre="", post="", n=n, weight=30 ** n))
        for entry in ("json", "urlencoded"):
            for ctparam in ("", "; charset=utf-8", "; charset=latin-1", "; charset=nonsense", "; charset=", "; charset=utf-16"):
                for n in range(0, b["body_bytes"] + 1):
                    if ctparam not in ("", "; charset=nonsense") and n > 2:
                        continue
                    if "utf-16" in ctparam and n > 0:
                        continue  # no symbolic UTF-16 decoder: the recipe only checks the empty body
                    out.append(dict(name=f"{iface}/{entry}/{ctparam or 'default'}/n{n}", iface=iface, entry=entry, ctparam=ctparam, n=n, weight=6 ** n))
        for hi, (hpre, hpost) in enumerate([(b"", b""), (b'Content-Disposition: form-data; name="a"\r\n', b""), (b"Content-Disposition: form-data; name=", b""),
                                             (b"Content-Disposition", b' form-data; name="a"')]):
            for n in range(0, b["body_bytes"] + 1):
                out.append(dict(name=f"{iface}/multipart-header/h{hi}/n{n}", iface=iface, entry="multipart-header", hpre=hpre, hpost=hpost, n=n, weight=8 ** n))
        for ims in range(len(IMS_RECIPES)):
            for n in (0, 1, 2):
                out.append(dict(name=f"{iface}/conditional/ims{ims}/inm{n}", iface=iface, entry="conditional", ims=ims, n=n, pre="", post="", inm=(n > 0)))
        for pre, post in (('"', '"'), ('W/"', '", *'), ("*", "")):
            out.append(dict(name=f"{iface}/conditional/ims0/inm-shaped{len(pre)}", iface=iface, entry="conditional", ims=0, n=2, pre=pre, post=post, inm=True))
    out.append(dict(name="twin", iface="wsgi", entry="content-type", pre="", post="", n=1, twin=True))
    return out


def replay(rec) -> int:
    if isinstance(rec.get("witness"), dict) and rec["witness"].get("delegate"):
        import importlib
        return importlib.import_module(rec["witness"]["delegate"]).replay(rec)
    if isinstance(rec.get("witness"), dict) and "recipe" in rec["witness"]:
        w = rec["witness"]
        try:
            _recipe_requests()[w["recipe"]](w["iface"])
            print(f"replay C12 recipe {w}: returned")
            return 0
        except Exception as ex:  # noqa: BLE001
            print(f"replay C12 recipe {w}: {type(ex).__name__}: {ex}")
            return 0 if allowed(ex) else 1
    cp = concrete(rec["witness"])
    print(f"replay C12: {rec['witness']} -> {cp}")
    return 1 if cp else 0
