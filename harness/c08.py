"""C08 -- the router dispatches to the first matching route with typed parameters.

Real code run: Convertor classes (regex, to_python, to_string), PARAM_REGEX / compile_path, Route.__init__/matches,
BaseRouter.search, wsgi/asgi Router.__call__.

lemma   E-Z3: for every live CONVERTOR_TYPES[t].regex, the language of the regex (translated from the pattern
        text) is compared with the type language the statement names; z3 decides L(impl) xor L(spec) = empty.
route   E-FS: real Route/Router on a fully symbolic path (every character a solver variable) through ReShim;
        oracle = first route, in declaration order, whose SPEC language (literal text verbatim + type languages,
        built independently as z3 regexes) contains the whole path -- decided by z3's regex theory; captured
        parameter text must equal the denoted slice.
conv    E-FS: to_python/to_string on symbolic digit strings: int value and date fields are decided arithmetic;
        decimal round trip (to_string(to_python(s)) accepted again and equal in value) with a text model of
        Decimal; date validity (month/day ranges, leap years) with an integer model of datetime.date.
"""
from __future__ import annotations

import itertools
import re as _re
import uuid as _uuid
from datetime import date as _date
from decimal import Decimal as _Decimal
from typing import Any, Dict, List, Optional, Tuple

import z3

import baize.asgi.routing as AR
import baize.routing as RT
import baize.wsgi.routing as WR

from engine import report
from engine.forksym import Engine, Pruned, SInt, Unsupported, conc, cur, term_of
from engine.reshim import ReShim, wrap_pattern
from engine.shims import Shims, int_shim, str_shim
from engine.symseq import SSeq, SStr, _items_of, in_range, in_set
from engine.vloop import drive
from engine.z3re import allchar, regex_of, string_of_codes

PID = "C08"
MAXCP = 0x2FFFF  # z3's character sort ends here; the regex-language oracle is exact up to this code point

META = {
    "functions": lambda: [RT.StringConvertor.to_python, RT.IntegerConvertor.to_python, RT.IntegerConvertor.to_string, RT.DecimalConvertor.to_python,
                          RT.DecimalConvertor.to_string, RT.UUIDConvertor.to_python, RT.DateConvertor.to_python, RT.DateConvertor.to_string,
                          RT.compile_path, RT.Route.__init__, RT.Route.matches, RT.BaseRouter.search, WR.Router.__call__, AR.Router.__call__],
    "engines": ["E-Z3 (regex-language lemmas on the live convertor patterns)", "E-FS (forksym + ReShim) for Route/Router and the convertors"],
    "stubs": ["baize.routing.re -> ReShim (route patterns are compiled from the real format strings)", "baize.routing.int -> int_shim",
              "baize.routing.Decimal -> text model of decimal.Decimal for plain digit strings (str() drops leading zeros; comparison by value)",
              "baize.routing.date -> integer model of datetime.date (range checks incl. leap years, isoformat as zero-padded token text)",
              "baize.routing.uuid.UUID -> text model (canonical lower-case text kept verbatim)"],
    "assumptions": ["route tables are an enumerated recipe list", "path characters are code points <= U+2FFFF (limit of z3's character sort)",
                    "value models of Decimal/date/UUID are validated by running the unshimmed code on every path's model"],
    "bounds": {"quick": {"path_len_max": 8, "int_digits_max": 6, "decimal_digits": "<=4 integer + <=4 fraction digits"},
               "thorough": {"path_len_max": 9, "int_digits_max": 7, "decimal_digits": "<=4 integer + <=4 fraction digits"}},
    "outside": ["longer paths / more digits", "route tables outside the recipe list", "code points above U+2FFFF", "user-defined convertors"],
    "expect_kinds": {"all": ["lemma", "dispatched", "404", "converted"]},
}


class Fail(Exception):
    def __init__(self, klass, detail=""):
        self.klass, self.detail = klass, detail


D = z3.Range("0", "9")
H = z3.Union(z3.Range("0", "9"), z3.Range("a", "f"))


def spec_language(t: str):
    if t == "str":
        return z3.Plus(z3.Diff(allchar(), z3.Re("/")))
    if t == "int":
        return z3.Plus(D)
    if t == "decimal":
        return z3.Concat(z3.Plus(D), z3.Option(z3.Concat(z3.Re("."), z3.Plus(D))))
    if t == "uuid":
        return z3.Concat(z3.Loop(H, 8, 8), z3.Re("-"), z3.Loop(H, 4, 4), z3.Re("-"), z3.Loop(H, 4, 4), z3.Re("-"), z3.Loop(H, 4, 4), z3.Re("-"), z3.Loop(H, 12, 12))
    if t == "date":
        return z3.Concat(z3.Loop(D, 4, 4), z3.Re("-"), z3.Loop(D, 2, 2), z3.Re("-"), z3.Loop(D, 2, 2))
    if t == "any":
        return z3.Star(allchar())
    raise KeyError(t)


def py_spec(t: str, s: str) -> bool:
    if t == "str":
        return len(s) > 0 and "/" not in s
    if t == "int":
        return len(s) > 0 and all(c in "0123456789" for c in s)
    if t == "decimal":
        a, dot, b = s.partition(".")
        ok = lambda x: len(x) > 0 and all(c in "0123456789" for c in x)  # noqa: E731
        return ok(a) and (not dot or ok(b))
    if t == "uuid":
        parts = s.split("-")
        return [len(p) for p in parts] == [8, 4, 4, 4, 12] and all(c in "0123456789abcdef" for p in parts for c in p)
    if t == "date":
        return len(s) == 10 and s[4] == s[7] == "-" and all(c in "0123456789" for i, c in enumerate(s) if i not in (4, 7))
    return True


def z3_unescape(w: str) -> str:
    return _re.sub(r"\\u\{([0-9a-fA-F]+)\}", lambda m: chr(int(m.group(1), 16)), w)


# ------------------------------------------------------------------ lemmas
def job_lemma(job) -> report.JobResult:
    import time
    res = report.JobResult.new(job["name"], engine="E-Z3")
    t = job["type"]
    conv = RT.CONVERTOR_TYPES[t]
    impl = regex_of(conv.regex)
    spec = spec_language(t)
    s = z3.String("s")
    sol = z3.Solver()
    sol.set("timeout", 60000)
    sol.add(z3.Xor(z3.InRe(s, impl), z3.InRe(s, spec)))
    if job.get("twin"):
        sol = z3.Solver()
        sol.add(z3.InRe(s, impl))
    t0 = time.perf_counter()
    r = sol.check()
    res["queries"] += 1
    res["solver_s"] += time.perf_counter() - t0
    res["paths"] += 1
    if r == z3.unknown:
        res["unsupported"].append("z3 unknown on regex-language lemma")
        return res
    if r == z3.sat:
        w = z3_unescape(sol.model()[s].as_string())
        real = bool(_re.fullmatch(conv.regex, w))
        want = py_spec(t, w)
        res.violation(f"C08/convertor-language/{t}", {"type": t, "regex": conv.regex, "text": w},
                      f"regex {conv.regex!r} {'accepts' if real else 'rejects'} {w!r}, the {t} language {'contains' if want else 'does not contain'} it",
                      (real != want) or bool(job.get("twin")))
        return res
    res.kind("lemma")
    res["validated"] += 1
    res.sample({"type": t, "regex": conv.regex, "verdict": "L(regex) == L(type)"})
    return res


# ------------------------------------------------------------------ routing
TABLES: Dict[str, List[str]] = {
    "int-str-lit": ["/u/{id:int}", "/u/{name}", "/u/me"],
    "lit-str-int": ["/u/me", "/u/{name}", "/u/{id:int}"],
    "any-lit": ["/f/{p:any}", "/f/x"],
    "lit-any": ["/f/x", "/f/{p:any}"],
    "two-params": ["/{a}/{b:int}", "/{a:any}"],
    "special-literals": ["/a.b", "/a+b/{x}", "/(c)"],
    "decimal-date": ["/d/{d:date}", "/d/{x:decimal}", "/d/{s}"],
    "root": ["/", "/{x}"],
    "decimal-then-str": ["/s/{price:decimal}/{item}", "/s/{x}/{y}"],
    "decimal-int": ["/q/{p:decimal}/{n:int}", "/q/{rest:any}"],
    "placeholder-before-literal": ["/{page}", "/about", "/a/{x:int}"],
}
ROUTE_PARAM = _re.compile(r"{([^\d]\w*)(:\w+)?}")


def spec_route(template: str):
    """z3 regex for 'literal text verbatim, placeholders by their type language' + list of (name, type)."""
    parts = []
    params = []
    idx = 0
    for m in ROUTE_PARAM.finditer(template):
        lit = template[idx:m.start()]
        if lit:
            parts.append(z3.Re(lit))
        t = (m.group(2) or ":str").lstrip(":")
        parts.append(spec_language(t))
        params.append((m.group(1), t))
        idx = m.end()
    if template[idx:]:
        parts.append(z3.Re(template[idx:]))
    r = z3.Concat(*parts) if len(parts) > 1 else parts[0]
    return r, params


def spec_pattern_text(template: str) -> str:
    rx = ""
    idx = 0
    for m in ROUTE_PARAM.finditer(template):
        rx += _re.escape(template[idx:m.start()])
        t = (m.group(2) or ":str").lstrip(":")
        body = {"str": "[^/]+", "int": "[0-9]+", "decimal": r"[0-9]+(?:\.[0-9]+)?", "uuid": "[0-9a-f]{8}-[0-9a-f]{4}-[0-9a-f]{4}-[0-9a-f]{4}-[0-9a-f]{12}",
                "date": "[0-9]{4}-[0-9]{2}-[0-9]{2}", "any": r"[\s\S]*"}[t]
        rx += f"(?P<{t}__{m.group(1)}>{body})"
        idx = m.end()
    return rx + _re.escape(template[idx:])


def spec_match(pat, path) -> bool:
    """the statement's notion of 'route matches path': full match of literal text + type languages, where a date
    placeholder only stands for text that denotes a calendar date (years 0001..9999)."""
    m = pat.fullmatch(path)
    if m is None:
        return False
    for name, txt in m.groupdict().items():
        if not name.startswith("date__"):
            continue
        its = _items_of(txt)

        def num(cs):
            v = z3.IntVal(0)
            for c in cs:
                v = v * 10 + (term_of(c) - 48)
            return v
        ty, tm, td = num(its[0:4]), num(its[5:7]), num(its[8:10])
        leap = z3.And(ty % 4 == 0, z3.Or(ty % 100 != 0, ty % 400 == 0))
        dim = z3.If(z3.Or(tm == 4, tm == 6, tm == 9, tm == 11), 30, z3.If(tm == 2, z3.If(leap, 29, 28), 31))
        valid = z3.simplify(z3.And(ty >= 1, tm >= 1, tm <= 12, td >= 1, td <= dim))
        ok = (z3.is_true(valid)) if (z3.is_true(valid) or z3.is_false(valid)) else cur().branch(valid)
        if not ok:
            return False
    return True


def py_route_match(template: str, path: str) -> bool:
    rx = ""
    idx = 0
    for m in ROUTE_PARAM.finditer(template):
        rx += _re.escape(template[idx:m.start()])
        t = (m.group(2) or ":str").lstrip(":")
        rx += "(" + {"str": "[^/]+", "int": "[0-9]+", "decimal": r"[0-9]+(?:\.[0-9]+)?", "uuid": "[0-9a-f]{8}-[0-9a-f]{4}-[0-9a-f]{4}-[0-9a-f]{4}-[0-9a-f]{12}",
                     "date": "[0-9]{4}-[0-9]{2}-[0-9]{2}", "any": r"[\s\S]*"}[t] + ")"
        idx = m.end()
    rx += _re.escape(template[idx:])
    mm = _re.fullmatch(rx, path)
    if mm is None:
        return False
    k = 0
    for m in ROUTE_PARAM.finditer(template):
        k += 1
        if (m.group(2) or ":str").lstrip(":") == "date":
            txt = mm.group(k)
            try:
                _date(int(txt[:4]), int(txt[5:7]), int(txt[8:10]))
            except ValueError:
                return False
    return True


class Endpoint:
    def __init__(self, i):
        self.i = i
        self.calls: List[Any] = []
        self.consume = False

    def _seen(self, p):
        self.calls.append(dict(p) if isinstance(p, dict) else p)
        if self.consume and isinstance(p, dict):
            # an endpoint that uses up the mapping it was given (pops what it handles, leaves a marker): its own business, not the next request's
            p.clear()
            p["handled"] = True

    def wsgi(self, environ, start_response):
        self._seen(environ.get("PATH_PARAMS"))
        start_response("200 OK", [])
        return [b""]

    async def asgi(self, scope, receive, send):
        self._seen(scope.get("path_params"))


def run_router(iface, templates, path, root="", outer=None, earlier=False, omit_path_key=False):
    """root: the mount point the server / an outer Subpaths already removed from the path (SCRIPT_NAME / root_path); routing is on `path` alone.
    earlier: the same router object has already served one request for this very path, whose endpoint consumed its parameter mapping"""
    eps = [Endpoint(i) for i in range(len(templates))]
    if iface == "wsgi":
        app = WR.Router(*[(t, e.wsgi) for t, e in zip(templates, eps)])
        if outer:  # the router is itself the endpoint of a catch-all route of an outer router (the documented way to nest routers)
            app = WR.Router((outer, app))
    else:
        app = AR.Router(*[(t, e.asgi) for t, e in zip(templates, eps)])
        if outer:
            app = AR.Router((outer, app))

    def once():
        if iface == "wsgi":
            calls = []
            env = {"REQUEST_METHOD": "GET", "PATH_INFO": path, "SCRIPT_NAME": root}
            if omit_path_key:  # PEP 3333: PATH_INFO "may be an empty string" and a variable that would be empty may be omitted
                del env["PATH_INFO"]
            list(app(env, lambda s, h, e=None: calls.append(s)))
            return calls[0] if calls else None
        sent = []

        async def send(m):
            sent.append(m)

        async def receive():
            return {"type": "http.disconnect"}
        drive(app({"type": "http", "method": "GET", "path": path, "root_path": root, "headers": []}, receive, send))
        return sent[0]["status"] if sent else None
    if earlier:
        for ep in eps:
            ep.consume = True
        try:
            once()
        except ValueError:
            pass
        for ep in eps:
            ep.consume = False
            ep.calls.clear()
    status = once()
    return status, eps


def routing_shims() -> Shims:
    return Shims().add(RT, re=ReShim, int=int_shim, Decimal=DecModel, date=DateModel, uuid=UuidMod, PARAM_REGEX=wrap_pattern(RT.PARAM_REGEX))


def job_route(job) -> report.JobResult:
    res = report.JobResult.new(job["name"])
    twin = job.get("twin", False)
    iface, tname, n = job["iface"], job["table"], job["n"]
    templates = TABLES[tname]
    eng = Engine(budget_s=job.get("budget", 1500))
    path = SStr.fresh(n, "x", 0, MAXCP, eng.solver)
    if job.get("prefix_text"):
        pre = job["prefix_text"]
        path = SStr([ord(c) for c in pre] + path.items)
    shims = routing_shims()
    specs = [spec_route(t) for t in templates]
    pz = string_of_codes([term_of(c) for c in path.items])
    SSeq.NORMALIZE = False
    SSeq.CONST_HASH = bool(job.get("const_hash"))  # should the current source key a table on the path, the proxy may be hashed (equality stays solver-decided)

    spec_pats = [ReShim.compile(spec_pattern_text(t)) for t in templates]
    use_z3 = n <= 4 and not job.get("prefix_text")

    def fn():
        try:
            status, eps = run_router(iface, templates, path, job.get("root", ""), job.get("outer"), job.get("earlier", False), job.get("omit_path_key", False))
            err = None
        except ValueError as ex:  # conversion error: still decide what the spec says about this path
            status, eps, err = None, [], ex
        # the statement's matcher, run symbolically on the same path: literal text verbatim, type languages, first wins
        exp = next((i for i, sp in enumerate(spec_pats) if spec_match(sp, path)), None)
        exp_params = None
        if exp is not None:
            mm = spec_pats[exp].fullmatch(path)
            exp_params = {k.split("__", 1)[1]: (k.split("__", 1)[0], _items_of(v)) for k, v in mm.groupdict().items()}
        return status, eps, exp, err, exp_params

    def on_path(e, r):
        kind, v = r
        klass = detail = None
        outcome = None
        try:
            if kind == "exc":
                raise Fail(f"exception:{type(v).__name__}", repr(v))
            if twin:
                raise Fail("twin-assert-false")
            status, eps, exp, err, exp_params = v
            if err is not None:
                raise Fail("conversion-error-escapes", f"{err!r} for a path whose first spec match is route {exp}")
            hit = [ep.i for ep in eps if ep.calls]
            if len(hit) > 1 or any(len(ep.calls) > 1 for ep in eps):
                raise Fail("dispatched-more-than-once")
            if (hit[0] if hit else None) != exp:
                raise Fail("not-first-full-match" if hit else "404-although-a-route-matches",
                           f"dispatched to {hit[0] if hit else None}, the first route whose language contains the path is {exp}")
            member = [z3.InRe(pz, sp[0]) for sp in specs] if use_z3 else None
            if hit:
                i = hit[0]
                if use_z3 and e.check(z3.Not(z3.And([z3.Not(member[j]) for j in range(i)] + [member[i]]))):
                    raise Fail("not-first-full-match", f"(z3 regex oracle) dispatched to route {i} {templates[i]!r}")
                params = eps[i].calls[0]
                names = [nm for nm, _ in specs[i][1]]
                if sorted(params or {}) != sorted(names):
                    raise Fail("path-params-names", f"{sorted(params or {})} vs {names}")
                for pname, (ptype, pits) in (exp_params or {}).items():
                    compare_param(e, ptype, pits, params[pname])
                outcome = "dispatched"
            else:
                if use_z3 and e.check(z3.Or(member)):
                    raise Fail("404-although-a-route-matches", "(z3 regex oracle)")
                if str(status)[:3] != "404":
                    raise Fail("no-match-but-not-404", str(status))
                outcome = "404"
        except Fail as f:
            klass, detail = f.klass, f.detail
        if not (klass in ("param-text-wrong", "param-value-wrong") or "(z3 regex oracle)" in (detail or "")):
            e.last_sat = False  # class decided by forks, not by a final query: any model of the path condition is the witness
        m = e.witness()
        wit = {"iface": iface, "routes": templates, "path": conc(path, m), "root": job.get("root", ""), "outer": job.get("outer"), "earlier": job.get("earlier", False), "omit_path_key": job.get("omit_path_key", False)}
        with shims.off():
            cp = concrete_route(wit)
        if klass is not None:
            res.violation(f"C08/router/{klass.split(':')[0]}", wit, f"{klass} {detail}; concrete: {cp}", (cp is not None) or twin)
            return
        res.kind(outcome)
        if cp is not None:
            res["harness_errors"].append(f"symbolic path holds but concrete run fails: {wit!r}: {cp}")
        res["validated"] += 1
        res.sample({"routes": templates, "path": repr(wit["path"]), "outcome": outcome}, limit=1)

    try:
        with shims:
            eng.explore(fn, on_path)
    finally:
        SSeq.NORMALIZE = True
        SSeq.CONST_HASH = False
    res.absorb_engine(eng)
    return res


def check_params(e: Engine, template: str, params_spec, path: SStr, params) -> None:
    """captured parameter text == the slice the template denotes (single-placeholder templates and '/{a}/{b:int}')"""
    ms = list(ROUTE_PARAM.finditer(template))
    if len(ms) == 1:
        pre, suf = template[:ms[0].start()], template[ms[0].end():]
        its = path.items[len(pre): len(path.items) - len(suf)]
        name, t = params_spec[0]
        compare_param(e, t, its, params[name])
    elif template == "/{a}/{b:int}":
        its = path.items
        # a = between first '/' and the LAST '/', but a has no '/', so the second '/' is the only other one
        k = None
        for i in range(1, len(its)):
            if not isinstance(its[i], SInt):
                if its[i] == 47:
                    k = i
            elif not e.check(term_of(its[i]) != 47):
                k = i
        if k is None:
            raise Fail("param-text-wrong", "separator not found")
        compare_param(e, "str", its[1:k], params["a"])
        compare_param(e, "int", its[k + 1:], params["b"])


def compare_param(e: Engine, t: str, its: List[Any], got) -> None:
    if t in ("str", "any"):
        gi = _items_of(got)
        if gi is None or len(gi) != len(its):
            raise Fail("param-text-wrong", f"{t} parameter length")
        diffs = [term_of(a) != term_of(b) for a, b in zip(gi, its) if not z3.eq(term_of(a), term_of(b))]
        if diffs and e.check(z3.Or(diffs)):
            raise Fail("param-text-wrong")
    elif t == "int":
        val = z3.IntVal(0)
        for c in its:
            val = val * 10 + (term_of(c) - 48)
        if not isinstance(got, (SInt, int)):
            raise Fail("param-value-wrong", f"int parameter is {type(got).__name__}")
        if e.check(term_of(got) != val):
            raise Fail("param-value-wrong", "int parameter value")
    elif t == "decimal":
        if not isinstance(got, DecModel):
            raise Fail("param-value-wrong", f"decimal parameter is {type(got).__name__}")
        gi = got.text_items
        if len(gi) != len(its) or any(not z3.eq(term_of(a), term_of(b)) and e.check(term_of(a) != term_of(b)) for a, b in zip(gi, its)):
            raise Fail("param-value-wrong", "Decimal built from other text")
    elif t == "uuid":
        txt = getattr(got, "text", None)
        gi = _items_of(txt) if txt is not None else None
        if gi is None or len(gi) != len(its) or any(not z3.eq(term_of(a), term_of(b)) and e.check(term_of(a) != term_of(b)) for a, b in zip(gi, its)):
            raise Fail("param-value-wrong", "UUID built from other text")
    elif t == "date":
        if not isinstance(got, DateModel):
            raise Fail("param-value-wrong", f"date parameter is {type(got).__name__}")

        def num(cs):
            v = z3.IntVal(0)
            for c in cs:
                v = v * 10 + (term_of(c) - 48)
            return v
        if e.check(z3.Or(term_of(got.y) != num(its[0:4]), term_of(got.m) != num(its[5:7]), term_of(got.d) != num(its[8:10]))):
            raise Fail("param-value-wrong", "date fields")


def concrete_route(w) -> Optional[str]:
    nrm = SSeq.NORMALIZE
    SSeq.NORMALIZE = True
    try:
        templates, path = w["routes"], w["path"]
        try:
            status, eps = run_router(w["iface"], templates, path, w.get("root", ""), w.get("outer"), w.get("earlier", False), w.get("omit_path_key", False))
        except Exception as ex:  # noqa: BLE001
            return f"exception {type(ex).__name__}: {ex}"
        exp = next((i for i, t in enumerate(templates) if py_route_match(t, path)), None)
        got = next((ep.i for ep in eps if ep.calls), None)
        if got != exp:
            return f"dispatched to {got}, first full match is {exp}"
        if exp is None and str(status)[:3] != "404":
            return f"status {status}"
        if exp is not None:
            params = eps[exp].calls[0] or {}
            rx = ""
            idx = 0
            kinds = {}
            for mm in ROUTE_PARAM.finditer(templates[exp]):
                rx += _re.escape(templates[exp][idx:mm.start()])
                t = (mm.group(2) or ":str").lstrip(":")
                kinds[mm.group(1)] = t
                rx += f"(?P<{mm.group(1)}>" + {"str": "[^/]+", "int": "[0-9]+", "decimal": r"[0-9]+(?:\.[0-9]+)?", "uuid": "[0-9a-f-]{36}",
                                                 "date": "[0-9]{4}-[0-9]{2}-[0-9]{2}", "any": r"[\s\S]*"}[t] + ")"
                idx = mm.end()
            rx += _re.escape(templates[exp][idx:])
            gd = _re.fullmatch(rx, path).groupdict()
            if set(params) != set(gd):
                return f"path parameters {sorted(params)} for a route whose placeholders are {sorted(gd)}"
            for k, txt in gd.items():
                t = kinds[k]
                want = {"str": lambda s: s, "any": lambda s: s, "int": int, "decimal": _Decimal, "uuid": _uuid.UUID,
                        "date": lambda s: _date(int(s[:4]), int(s[5:7]), int(s[8:10]))}[t]
                try:
                    wv = want(txt)
                except ValueError:
                    continue
                if params.get(k) != wv:
                    return f"param {k}={params.get(k)!r}, denoted {wv!r}"
        return None
    finally:
        SSeq.NORMALIZE = nrm


# ------------------------------------------------------------------ value models
class DecModel:
    """decimal.Decimal for plain digit strings 'D+(.D+)?' kept as text items."""

    def __init__(self, text):
        its = _items_of(text) if not isinstance(text, DecModel) else text.text_items
        if its is None:
            raise cur()._raise(Unsupported(f"Decimal({type(text).__name__})"))
        self.text_items = list(its)
        dot = None
        for i, c in enumerate(its):
            if in_set(c, (46,)):
                if dot is not None:
                    raise _DecInvalid("two dots")
                dot = i
            elif not in_range(c, 48, 57):
                raise _DecInvalid("non-digit")
        self.int_items = its[:dot] if dot is not None else list(its)
        self.frac_items = its[dot + 1:] if dot is not None else []
        if not self.int_items or (dot is not None and not self.frac_items):
            raise _DecInvalid("empty part")

    def value_scaled(self, k: int):
        """value * 10^k as a z3 Int (k >= len(frac))"""
        v = z3.IntVal(0)
        for c in self.int_items + self.frac_items:
            v = v * 10 + (term_of(c) - 48)
        return v * (10 ** (k - len(self.frac_items)))

    def normalize(self, context=None):
        """Decimal.normalize(): ROUND_HALF_EVEN to the context precision (28 significant digits), trailing zeros dropped.
        Exact arithmetic model over the digit terms; forks on leading zeros and on the carry."""
        digits = self.int_items + self.frac_items
        nf = len(self.frac_items)
        lz = 0
        while lz < len(digits) - 1 and in_set(digits[lz], (48,)):
            lz += 1
        sig = digits[lz:]
        coeff = z3.IntVal(0)
        for c in sig:
            coeff = coeff * 10 + (term_of(c) - 48)
        drop = len(sig) - 28
        if drop <= 0:
            out = DecModel.__new__(DecModel)
            out.text_items = list(self.text_items)
            out.int_items, out.frac_items = list(self.int_items), list(self.frac_items)
            return out
        k = coeff / (10 ** drop)
        r = coeff % (10 ** drop)
        half = 5 * 10 ** (drop - 1)
        up = z3.Or(r > half, z3.And(r == half, k % 2 == 1))
        k2 = z3.simplify(k + z3.If(up, 1, 0))
        ndig = 29 if cur().branch(k2 >= 10 ** 28) else 28
        kd = [SInt(z3.simplify((k2 / (10 ** (ndig - 1 - i))) % 10 + 48)) for i in range(ndig)]
        exp10 = drop - nf  # value = k2 * 10**exp10
        out = DecModel.__new__(DecModel)
        if exp10 >= 0:
            out.int_items, out.frac_items = kd + [48] * exp10, []
        else:
            cut = ndig + exp10
            if cut > 0:
                out.int_items, out.frac_items = kd[:cut], kd[cut:]
            else:
                out.int_items, out.frac_items = [48], [48] * (-cut) + kd
        out.text_items = out.int_items + ([46] + out.frac_items if out.frac_items else [])
        return out

    def is_nan(self):
        return False

    def is_infinite(self):
        return False

    def __gt__(self, o):
        # Decimal("0.0") > value  is evaluated as value.__lt__ reflected; non-negative by construction
        return False

    def __lt__(self, o):
        return False

    def __format__(self, spec):
        if spec not in ("", "f"):
            raise cur()._raise(Unsupported(f"Decimal format spec {spec!r}"))
        return self.__str__()  # for plain digit strings fixed-point formatting equals str()

    def __str__(self):
        # str(Decimal('007.50')) == '7.50': leading zeros of the integer part dropped (one digit kept)
        ip = list(self.int_items)
        while len(ip) > 1 and in_set(ip[0], (48,)):
            ip = ip[1:]
        out = ip + ([46] + self.frac_items if self.frac_items else [])
        return _StrBox(SStr(out))


class _StrBox(str):
    """`str(value)` must return a real str; this subclass carries the proxy and forwards the str methods baize uses."""

    def __new__(cls, s: SStr):
        o = super().__new__(cls, "<symbolic decimal text>")
        o.s = s
        return o

    def rstrip(self, chars=None):
        r = self.s.rstrip(chars)
        return _StrBox(r) if isinstance(r, SStr) else r

    def __contains__(self, sub):
        return sub in self.s

    def __len__(self):
        return len(self.s)


class _DecInvalid(ArithmeticError):
    pass


class DateModel:
    def __init__(self, y, m, d):
        e = cur()
        self.y, self.m, self.d = y, m, d
        ty, tm, td = term_of(y), term_of(m), term_of(d)
        leap = z3.And(ty % 4 == 0, z3.Or(ty % 100 != 0, ty % 400 == 0))
        dim = z3.If(z3.Or(tm == 4, tm == 6, tm == 9, tm == 11), 30, z3.If(tm == 2, z3.If(leap, 29, 28), 31))
        valid = z3.And(ty >= 1, ty <= 9999, tm >= 1, tm <= 12, td >= 1, td <= dim)
        if not e.branch(valid):
            raise ValueError("date value out of range")

    @staticmethod
    def _digits(term, n):
        return [SInt(z3.simplify((term / (10 ** (n - 1 - i))) % 10 + 48)) for i in range(n)]

    def isoformat(self):
        return SStr(self._digits(term_of(self.y), 4) + [45] + self._digits(term_of(self.m), 2) + [45] + self._digits(term_of(self.d), 2))

    __str__ = None  # str(date) is not used by baize; keep it unsupported

    def strftime(self, fmt):
        """glibc semantics for the directives a date formatter plausibly uses: %Y is NOT zero padded, %m %d %H.. are"""
        out: List[Any] = []
        i = 0
        while i < len(fmt):
            if fmt[i] != "%":
                out.append(ord(fmt[i]))
                i += 1
                continue
            d = fmt[i + 1]
            if d == "Y":
                ty = term_of(self.y)
                n = 1
                while n < 4 and not cur().branch(ty < 10 ** n):
                    n += 1
                out += self._digits(ty, n)
            elif d == "m":
                out += self._digits(term_of(self.m), 2)
            elif d == "d":
                out += self._digits(term_of(self.d), 2)
            elif d == "%":
                out.append(37)
            else:
                raise cur()._raise(Unsupported(f"strftime directive %{d} on the date model"))
            i += 2
        return SStr(out)


class UuidModel:
    def __init__(self, text):
        self.text = text

    def __str__(self):
        return self.text if isinstance(self.text, str) else str(self.text)


class UuidMod:
    UUID = UuidModel


# ------------------------------------------------------------------ conversions
def job_conv(job) -> report.JobResult:
    res = report.JobResult.new(job["name"])
    twin = job.get("twin", False)
    what = job["what"]
    eng = Engine(budget_s=900)
    shims = routing_shims()
    SSeq.NORMALIZE = False
    ni, nf = job.get("ni", 1), job.get("nf", 0)
    cs = SStr.fresh(ni + nf + (8 if what == "date" else 0), "c", 48, 57, eng.solver)
    conv = RT.CONVERTOR_TYPES[what]
    if what == "int":
        text = SStr(cs.items[:ni])
    elif what == "decimal":
        text = SStr(cs.items[:ni] + ([46] + cs.items[ni:ni + nf] if nf else []))
    else:
        d = cs.items
        text = SStr(d[0:4] + [45] + d[4:6] + [45] + d[6:8])

    def fn():
        try:
            v = conv.to_python(text)
        except ValueError as ex:
            return ("valueerror", ex)
        back = conv.to_string(v)
        return ("ok", v, back)

    def on_path(e, r):
        kind, v = r
        klass = detail = None
        try:
            if kind == "exc":
                raise Fail(f"exception:{type(v).__name__}", repr(v))
            if twin:
                raise Fail("twin-assert-false")
            if v[0] == "valueerror":
                if what != "date":
                    raise Fail("to_python-rejects-text-of-its-own-language", repr(v[1]))
                # only impossible calendar dates may be refused
            else:
                _, val, back = v
                if what == "int":
                    num = z3.IntVal(0)
                    for c in text.items:
                        num = num * 10 + (term_of(c) - 48)
                    if e.check(term_of(val) != num):
                        raise Fail("to_python-value-wrong")
                    tok = e.term_of_text(back) if isinstance(back, str) else None
                    if tok is None or e.check(tok != num):
                        raise Fail("to_string-not-the-decimal-rendering", repr(back))
                elif what == "date":
                    bi = _items_of(back)
                    if bi is None or len(bi) != 10:
                        raise Fail("to_string-result-not-in-date-language", f"length {None if bi is None else len(bi)}")
                    for i, (a, b) in enumerate(zip(bi, text.items)):
                        if not z3.eq(term_of(a), term_of(b)) and e.check(term_of(a) != term_of(b)):
                            raise Fail("round-trip-changes-value", f"character {i}")
                elif what == "decimal":
                    ref = DecModel(text)  # the value the text itself denotes, digit for digit
                    K0 = max(len(ref.frac_items), len(val.frac_items))
                    if e.check(val.value_scaled(K0) != ref.value_scaled(K0)):
                        raise Fail("to_python-value-wrong", "the Decimal delivered is not the number the text denotes")
                    bi = _items_of(back.s if isinstance(back, _StrBox) else back)
                    # accepted again: D+(.D+)?  and equal in value
                    dots = [i for i, c in enumerate(bi) if not isinstance(c, SInt) and c == 46]
                    if any(isinstance(c, SInt) and e.check(z3.Or(term_of(c) < 48, term_of(c) > 57)) for c in bi):
                        raise Fail("to_string-result-not-in-decimal-language")
                    if len(dots) > 1 or (dots and (dots[0] == 0 or dots[0] == len(bi) - 1)) or not bi:
                        raise Fail("to_string-result-not-in-decimal-language", conc(SStr(bi), e.witness()))
                    ip = bi[:dots[0]] if dots else bi
                    fp = bi[dots[0] + 1:] if dots else []
                    K = max(len(fp), nf)
                    bv = z3.IntVal(0)
                    for c in ip + fp:
                        bv = bv * 10 + (term_of(c) - 48)
                    bv = bv * (10 ** (K - len(fp)))
                    if e.check(bv != val.value_scaled(K)):
                        raise Fail("round-trip-changes-value")
        except Fail as f:
            klass, detail = f.klass, f.detail
        if klass not in ("to_python-value-wrong", "to_string-not-the-decimal-rendering", "round-trip-changes-value") or "length" in (detail or ""):
            e.last_sat = False
        m = e.witness()
        wit = {"type": what, "text": conc(text, m)}
        with shims.off():
            cp = concrete_conv(wit)
        if klass is not None:
            res.violation(f"C08/convertor/{what}/{klass.split(':')[0]}", wit, f"{klass} {detail}; concrete: {cp}", (cp is not None) or twin)
            return
        res.kind("converted")
        if cp is not None:
            res["harness_errors"].append(f"symbolic path holds but concrete run fails: {wit!r}: {cp}")
        res["validated"] += 1
        res.sample(wit, limit=1)

    try:
        with shims:
            eng.explore(fn, on_path)
    finally:
        SSeq.NORMALIZE = True
    res.absorb_engine(eng)
    return res


def concrete_conv(w) -> Optional[str]:
    nrm = SSeq.NORMALIZE
    SSeq.NORMALIZE = True
    try:
        t, s = w["type"], w["text"]
        conv = RT.CONVERTOR_TYPES[t]
        try:
            v = conv.to_python(s)
        except ValueError as ex:
            if t == "date":
                try:
                    _date(int(s[:4]), int(s[5:7]), int(s[8:10]))
                except ValueError:
                    return None
                return f"valid date refused: {ex}"
            return f"to_python raised {ex!r}"
        except Exception as ex:  # noqa: BLE001
            return f"exception {type(ex).__name__}: {ex}"
        want = {"int": int, "decimal": _Decimal, "date": lambda x: _date(int(x[:4]), int(x[5:7]), int(x[8:10]))}[t](s)
        if v != want:
            return f"to_python({s!r}) = {v!r}, denoted {want!r}"
        back = conv.to_string(v)
        if not _re.fullmatch(conv.regex, back) or not py_spec(t, back):
            return f"to_string gives {back!r}, not accepted by the same placeholder"
        if conv.to_python(back) != v:
            return f"round trip {s!r} -> {v!r} -> {back!r} -> {conv.to_python(back)!r}"
        return None
    finally:
        SSeq.NORMALIZE = nrm


def jobs(tier: str):
    b = META["bounds"][tier]
    out = []
    for t in RT.CONVERTOR_TYPES:
        out.append(dict(name=f"lemma/{t}", kind="lemma", type=t))
    out.append(dict(name="twin/lemma", kind="lemma", type="int", twin=True))
    for iface in ("wsgi", "asgi"):
        for tname in TABLES:
            if iface == "asgi" and tname in ("lit-str-int", "lit-any"):
                continue
            for n in range(0, b["path_len_max"] + 1):
                out.append(dict(name=f"route/{iface}/{tname}/n{n}", kind="route", iface=iface, table=tname, n=n, weight=3 ** n))
        # every literal-only route's own text (+0/1 symbolic chars): shadowing by earlier placeholder routes, exact-text fast paths
        for tname, tmpls in TABLES.items():
            for li, t in enumerate(tmpls):
                if "{" in t:
                    continue
                for n in (0, 1):
                    out.append(dict(name=f"route/{iface}/{tname}/literal{li}+{n}", kind="route", iface=iface, table=tname, n=n, prefix_text=t, weight=2))
        # date / decimal segments behind a fixed prefix so that the symbolic characters are spent on the parameter
        # the router mounted below a prefix that its own routes also begin with (Subpaths(("/u", Router("/u/{id:int}", ...))))
        for tname, root in (("int-str-lit", "/u"), ("any-lit", "/f"), ("two-params", "/a"), ("placeholder-before-literal", "/a")):
            for n in range(0, 4):
                out.append(dict(name=f"route/{iface}/{tname}/mounted-at:{root}/+{n}", kind="route", iface=iface, table=tname, n=n, prefix_text=root + "/", root=root, weight=3 ** n))
        # nested routers: the inner router is the endpoint of an outer catch-all route; the endpoint sees the INNER route's parameters only
        for tname, outer in (("int-str-lit", "/u/{outer_rest:any}"), ("any-lit", "/f/{outer_rest:any}"), ("lit-str-int", "/{outer_first}/{outer_rest:any}")):
            for n in range(0, 4):
                out.append(dict(name=f"route/{iface}/{tname}/nested-under:{outer}/+{n}", kind="route", iface=iface, table=tname, n=n,
                                prefix_text=TABLES[tname][0][:3], outer=outer, weight=3 ** n))
        # the same router object serving the same path a second time, after an endpoint that consumed its parameter mapping
        for tname in ("int-str-lit", "two-params", "any-lit"):
            for n in range(0, 4):
                out.append(dict(name=f"route/{iface}/{tname}/second-request-for-the-path/n{n}", kind="route", iface=iface, table=tname, n=n, earlier=True, const_hash=True, weight=3 ** n))
        if iface == "wsgi":  # the empty path given by OMITTING the PATH_INFO key: it is the empty path, not "/"
            for tname in ("root", "two-params", "placeholder-before-literal"):
                out.append(dict(name=f"route/wsgi/{tname}/no-PATH_INFO-key", kind="route", iface="wsgi", table=tname, n=0, omit_path_key=True, weight=2))
        out.append(dict(name=f"route/{iface}/decimal-then-str/s+5", kind="route", iface=iface, table="decimal-then-str", n=5, prefix_text="/s/", weight=600))
        out.append(dict(name=f"route/{iface}/decimal-int/q+5", kind="route", iface=iface, table="decimal-int", n=5, prefix_text="/q/", weight=600))
        out.append(dict(name=f"route/{iface}/decimal-date/d+10", kind="route", iface=iface, table="decimal-date", n=10, prefix_text="/d/", weight=5000))
    out.append(dict(name="twin/route", kind="route", iface="wsgi", table="root", n=2, twin=True))
    for ni in range(1, b["int_digits_max"] + 1):
        out.append(dict(name=f"conv/int/{ni}", kind="conv", what="int", ni=ni))
    lim = 4
    for ni in range(1, lim + 1):
        for nf in range(0, lim + 1):
            out.append(dict(name=f"conv/decimal/{ni}.{nf}", kind="conv", what="decimal", ni=ni, nf=nf, weight=4 ** (ni + nf)))
    for ni, nf in ((30, 0), (1, 30), (14, 16)):
        out.append(dict(name=f"conv/decimal/{ni}.{nf}-beyond-context-precision", kind="conv", what="decimal", ni=ni, nf=nf, weight=3000))
    out.append(dict(name="conv/date", kind="conv", what="date", ni=0, nf=0, weight=100))
    out.append(dict(name="twin/conv", kind="conv", what="int", ni=1, twin=True))
    return out


def run_job(job):
    return {"lemma": job_lemma, "route": job_route, "conv": job_conv}[job["kind"]](job)


def replay(rec) -> int:
    w = rec["witness"]
    if "regex" in w:
        real = bool(_re.fullmatch(RT.CONVERTOR_TYPES[w["type"]].regex, w["text"]))
        want = py_spec(w["type"], w["text"])
        print(f"replay C08: live regex {RT.CONVERTOR_TYPES[w['type']].regex!r} fullmatch({w['text']!r}) = {real}; type language membership = {want}")
        return 1 if real != want else 0
    cp = concrete_route(w) if "routes" in w else concrete_conv(w)
    print(f"replay C08: {w!r} -> {cp}")
    return 1 if cp else 0
