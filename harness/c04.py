"""C04 -- the WSGI and ASGI stacks are observationally equivalent (differential check).

The same abstract request / response recipe / application is built on BOTH stacks from the SAME symbolic data;
both real implementations run on the same path and their normalised observations (status, header multiset,
body; request-view attributes; dispatch target and parameters) must be equal -- equality of symbolic parts is a
solver query.  Sanctioned difference: the Connection header of the ASGI event-stream response.

Families: resp (every non-file response class: symbolic status / header value / cookie / body / redirect target),
file (FileResponse on the symbolic file of C02: symbolic size, chunk size, range numbers, raw Range / If-Range text
recipes), stream (StreamResponse / SendEventResponse run to completion), reqview (header-derived request
attributes from symbolic header text), apps (Router / Subpaths / Hosts / Files / Pages on a symbolic path, static
files with conditional headers over the symbolic file clock of C14).
"""
from __future__ import annotations

import importlib
import itertools
from typing import Any, Dict, List, Optional

import z3

import baize.asgi.requests as AQ
import baize.asgi.responses as AR
import baize.asgi.routing as ART
import baize.asgi.staticfiles as AS
import baize.datastructures as DS
import baize.requests as RQ
import baize.responses as R
import baize.routing as RT
import baize.staticfiles as SF
import baize.wsgi.requests as WQ
import baize.wsgi.responses as WR
import baize.wsgi.routing as WRT
import baize.wsgi.staticfiles as WS

from baize.exceptions import HTTPException

from engine import report
from engine.forksym import Engine, SInt, conc, cur, term_of
from engine.reshim import ReShim, wrap_pattern
from engine.shims import Shims, int_shim, str_shim
from engine.symseq import SBytes, SSeq, SStr, _items_of

from . import c02 as C2
from . import c05 as C5
from . import c07 as C7
from . import c08 as C8
from . import c09 as C9
from . import c14 as C14
from . import gw
from .gw import Fail

PID = "C04"

META = {
    "functions": lambda: [WR.Response.__call__, AR.Response.__call__, WR.SmallResponse.__call__, AR.SmallResponse.__call__, WR.RedirectResponse.__init__,
                          AR.RedirectResponse.__init__, WR.FileResponse.__call__, AR.FileResponse.__call__, WR.StreamingResponse.__call__,
                          AR.StreamingResponse.__call__, WR.SendEventResponse.__init__, AR.SendEventResponse.__init__, WQ.HTTPConnection.headers,
                          AQ.HTTPConnection.headers, RQ.MoreInfoFromHeaderMixin.content_type, RQ.MoreInfoFromHeaderMixin.content_length,
                          RQ.MoreInfoFromHeaderMixin.cookies, RQ.MoreInfoFromHeaderMixin.accepted_types, WRT.Router.__call__, ART.Router.__call__,
                          WRT.Subpaths.__call__, ART.Subpaths.__call__, WRT.Hosts.__call__, ART.Hosts.__call__, WS.Files.__call__, AS.Files.__call__,
                          WS.Files.file_response, AS.Files.file_response, WS.Pages.__call__, AS.Pages.__call__],
    "engines": ["E-FS (forksym): both stacks on one path, outputs compared through z3"],
    "stubs": ["union of the stubs of C02 (symbolic file), C05 (status table, quote model), C07 (path arithmetic, virtual tree), C08 (ReShim, value models), "
              "C09, C14 (file clock) -- identical on both sides"],
    "assumptions": ["an abstract request has one value per header name (a WSGI environ cannot express repeated headers)",
                    "header values are Latin-1; request-view attributes that go through stdlib URL/query/JSON parsers use concrete recipes"],
    "bounds": {"quick": {"text_chars": 3, "path_chars": 6}, "thorough": {"text_chars": 3, "path_chars": 7}},
    "outside": ["request bodies / forms / uploads (C01, C10, C15 run both stacks against one oracle each)", "longer texts"],
    "expect_kinds": {"all": ["equal"]},
}

IGNORE = {"sse": ("connection",)}


def both(e: Engine, build, method="GET", hdrs=(), use_loop=False, ignore=()):
    """build(iface) -> app; run on both stacks, monitor-free, compare."""
    out = {}
    for iface in ("wsgi", "asgi"):
        app = build(iface)
        if iface == "wsgi":
            env = C5.environ(method, **{("HTTP_" + k.upper().replace("-", "_")): v for k, v in hdrs})
            ev, done = gw.run_wsgi(app, env)
            raised = [x for x in ev if x[0] in ("raise",)]
            out[iface] = ("raise", type(raised[0][1]).__name__) if raised else ("ok", gw.norm_wsgi(ev))
        else:
            sc = C5.scope(method, [(k.encode(), (v.encode("latin-1") if isinstance(v, str) else SBytes(v.items))) for k, v in hdrs])
            ev, done = gw.run_asgi(app, sc, use_loop=use_loop)
            raised = [x for x in ev if x[0] == "raise"]
            out[iface] = ("raise", type(raised[0][1]).__name__) if raised else ("ok", gw.norm_asgi(ev))
    a, b = out["wsgi"], out["asgi"]
    if a[0] != b[0]:
        raise Fail("one-side-raises", f"wsgi {a if a[0] == 'raise' else 'ok'} / asgi {b if b[0] == 'raise' else 'ok'}")
    if a[0] == "raise":
        if a[1] != b[1]:
            raise Fail("different-exceptions", f"{a[1]} vs {b[1]}")
        return
    na, nb = merge_slices(a[1]), merge_slices(b[1])
    d = gw.diff_norm(e, na, nb, ignore_headers=ignore)
    if d:
        raise Fail("stacks-differ", d)


def merge_slices(norm):
    """(status, headers, body items) with file slices / zero-copy ranges merged into ('range', start, end) items"""
    st, hd, body = norm
    out: List[Any] = []
    for it in body:
        if type(it).__name__ == "Slice":
            if not cur().check(term_of(it.ln) != 0):
                continue  # an empty read contributes no body bytes
            s, en = term_of(it.off), term_of(it.off) + term_of(it.ln)
        elif isinstance(it, tuple) and it[0] == "zc":
            continue
        else:
            out.append(it)
            continue
        if out and isinstance(out[-1], tuple) and out[-1][0] == "range" and (z3.eq(z3.simplify(out[-1][2]), z3.simplify(s)) or not cur().check(out[-1][2] != s)):
            out[-1] = ("range", out[-1][1], en)
        else:
            out.append(("range", s, en))
    # ranges compare by their terms
    flat: List[Any] = []
    for it in out:
        if isinstance(it, tuple):
            flat.extend([SInt(z3.simplify(it[1])), SInt(z3.simplify(it[2]))])
        else:
            flat.append(it)
    return st, hd, flat


def _plain_norm(iface, app, method="GET", hdrs=()):
    """run an app unshimmed on concrete data and normalise (status int, sorted headers, body bytes)"""
    import asyncio
    if iface == "wsgi":
        env = C5.environ(method, **{("HTTP_" + k.upper().replace("-", "_")): v for k, v in hdrs})
        ev, done = gw.run_wsgi(app, env)
        r = [x for x in ev if x[0] == "raise"]
        if r:
            return ("raise", type(r[0][1]).__name__)
        st, hd, body = gw.norm_wsgi(ev)
        return ("ok", int(st), sorted((k, v) for k, v in hd), bytes(body))
    sc = C5.scope(method, [(k.encode(), v.encode("latin-1")) for k, v in hdrs])
    sent = []

    async def send(m):
        if m["type"] == "http.response.zerocopysend":
            raise RuntimeError("zero copy not offered")
        sent.append(("send", m))

    async def receive():
        await asyncio.sleep(3600)
    try:
        asyncio.run(asyncio.wait_for(app(sc, receive, send), 20))
    except Exception as ex:  # noqa: BLE001
        return ("raise", type(ex).__name__)
    st, hd, body = gw.norm_asgi(sent)
    return ("ok", int(st), sorted((k, v) for k, v in hd), bytes(body))


def concrete_confirm(job, inputs) -> Optional[bool]:
    """True: the two real stacks differ on these concrete inputs; False: they agree (counterexample does not reproduce);
    None: no concrete runner for this family."""
    import ast
    fam = job["family"]
    prev = Engine.cur
    Engine.cur = None
    nrm, ch = SSeq.NORMALIZE, SSeq.CONST_HASH
    SSeq.NORMALIZE, SSeq.CONST_HASH = True, False
    try:
        if fam == "resp":
            sym = {k: (ast.literal_eval(v) if isinstance(v, str) else v) for k, v in inputs.items()}
            outs = [_plain_norm(iface, C5.build_small(iface, job["recipe"], dict(sym)), method=job.get("method", "GET")) for iface in ("wsgi", "asgi")]
            return outs[0] != outs[1]
        if fam == "file":
            import os
            import tempfile
            with tempfile.TemporaryDirectory() as d:
                p = os.path.join(d, "file.bin")
                with open(p, "wb") as f:
                    f.write(bytes((i * 7 + 3) % 251 for i in range(min(inputs["size"], 300000))))
                if inputs["size"] > 300000:
                    return None
                st = os.stat(p)
                hdrs = []
                rng = inputs.get("range")
                if rng is not None:
                    hdrs.append(("range", ast.literal_eval(rng) if rng[:1] in "'\"" else rng))
                ifk = inputs.get("if_range")
                if ifk == "etag":
                    hdrs.append(("if-range", '"' + R.FileResponseMixin.generate_etag(st) + '"'))
                elif ifk == "empty":
                    hdrs.append(("if-range", ""))
                elif ifk == "other":
                    hdrs.append(("if-range", '"x"'))
                outs = []
                for iface in ("wsgi", "asgi"):
                    M = WR if iface == "wsgi" else AR
                    app = M.FileResponse(p, content_type=job.get("ctype", "text/plain"), chunk_size=inputs["chunk_size"])
                    o = _plain_norm(iface, app, method=job.get("method", "GET"), hdrs=hdrs)
                    if o[0] == "ok":  # the multipart boundary is random: mask it
                        import re as _re
                        ct = dict(o[2]).get("content-type", "")
                        mm = _re.search(r"boundary=(\w+)", ct)
                        if mm:
                            b_ = mm.group(1)
                            o = (o[0], o[1], sorted((k, v.replace(b_, "B")) for k, v in o[2]), o[3].replace(b_.encode(), b"B"))
                    outs.append(o)
                return outs[0] != outs[1]
        return None
    except Exception:  # noqa: BLE001
        return None
    finally:
        Engine.cur = prev
        SSeq.NORMALIZE, SSeq.CONST_HASH = nrm, ch


def _run(job, eng: Engine, fn, shims: Shims, desc) -> report.JobResult:
    res = report.JobResult.new(job["name"])
    twin = job.get("twin", False)

    def on_path(e, r):
        kind, v = r
        klass = detail = None
        if kind == "exc":
            if isinstance(v, Fail):
                klass, detail = v.klass, v.detail
            else:
                klass, detail = f"exception:{type(v).__name__}", repr(v)
        if klass != "stacks-differ":
            e.last_sat = False
        m = e.witness()
        wit = {"job": job["name"], "inputs": desc(m)}
        if klass is not None:
            key = klass if klass.startswith("exception:") else klass
            with shims.off():
                conf = concrete_confirm(job, wit["inputs"]) if not twin else True
            res.violation(f"C04/{job['family']}/{job.get('recipe', '')}/{key}", wit,
                          f"{klass} {detail}; both unshimmed stacks on the concrete witness: {'differ' if conf else 'agree' if conf is False else 'not re-run (the two real stacks already ran on this very path)'}",
                          conf)
            return
        res.kind("equal")
        if res["validated"] < 25 and job["family"] in ("resp", "file"):
            with shims.off():
                conf = concrete_confirm(job, wit["inputs"])
            if conf:
                res["harness_errors"].append(f"stacks agree symbolically but differ concretely: {wit['inputs']}")
            if conf is not None:
                res["validated"] += 1
        res.sample(wit["inputs"], limit=1)
    try:
        with shims:
            eng.explore(fn, on_path)
    finally:
        SSeq.NORMALIZE = True
        SSeq.CONST_HASH = False
    res.absorb_engine(eng)
    # differential check: the witness IS the pair of real executions on this path; confirm each violation concretely
    return res


# ------------------------------------------------------------------ resp / stream
def job_resp(job) -> report.JobResult:
    recipe, what, n = job["recipe"], job["what"], job.get("n", 1)
    eng = Engine(budget_s=900)
    eng.char_alphabet = "c1"
    sym: Dict[str, Any] = {}
    if what == "status":
        v = z3.Int("status")
        eng.solver.add(v >= 100, v <= 999)
        sym["status"] = SInt(v)
    elif what == "header":
        s = SStr.fresh(n, "h", 0, 255, eng.solver)
        C5.printable_latin1(eng, s)
        sym["hval"] = s
    elif what == "cookie":
        sym["cname"] = SStr.fresh(1, "cn", 33, 126, eng.solver)
        sym["cval"] = SStr.fresh(n, "cv", 0, 255, eng.solver)
    elif what == "body":
        sym["body"] = SBytes.fresh(n, "b", 0, 255, eng.solver)
    elif what == "text":
        sym["text"] = SStr.fresh(n, "t", 0, 127, eng.solver)
    elif what == "url":
        u = SStr.fresh(n, "u", 0, 0x10FFFF, eng.solver)
        for c in u.items:
            eng.solver.add(c.e < 0xF0000, z3.Or(c.e < 0xD800, c.e > 0xDFFF))
        sym["url"] = SStr([47] + u.items)
    shims = C5.shims_for()
    SSeq.NORMALIZE = False

    def fn():
        both(cur(), lambda iface: C5.build_small(iface, recipe, sym), method=job.get("method", "GET"))
        if job.get("twin"):
            raise Fail("twin-assert-false")

    def desc(m):
        return {k: (repr(conc(v, m)) if not isinstance(v, SInt) else m.eval(v.e, True).as_long()) for k, v in sym.items()}
    return _run(job, eng, fn, shims, desc)


def job_stream(job) -> report.JobResult:
    import sys
    sys.unraisablehook = lambda *a: None
    cls, n = job["cls"], job["items"]
    eng = Engine(budget_s=600)
    data = SStr.fresh(job.get("chars", 1), "d", 0, 127, eng.solver)
    for c in data.items:
        eng.solver.add(c.e != 10, c.e != 13)
    body = SBytes.fresh(1, "b", 0, 255, eng.solver)
    shims = C5.shims_for().add(R, re=ReShim)

    def build(iface):
        M = WR if iface == "wsgi" else AR
        items = [({"data": data, "event": "e%d" % i} if cls == "sse" else (body if i == 0 else b"c%d" % i)) for i in range(n)]
        if cls == "sse" and job.get("with_empty_event") and items:
            items.insert(1 if len(items) > 1 else 0, {})  # ServerSentEvent() with no field: a legal (empty) event
        if iface == "wsgi":
            def gen():
                for it in items:
                    yield dict(it) if isinstance(it, dict) else it
        else:
            async def gen():
                for it in items:
                    yield dict(it) if isinstance(it, dict) else it
        if cls == "sse":
            return M.SendEventResponse(gen(), headers={"x-a": "b"}, ping_interval=30)
        return M.StreamResponse(gen(), 201, {"x-a": "b"}, content_type="application/x-thing")

    def fn():
        both(cur(), build, use_loop=True, ignore=IGNORE.get(cls, ()))
        if job.get("twin"):
            raise Fail("twin-assert-false")
    return _run(job, eng, fn, shims, lambda m: {"data": repr(conc(data, m)), "first_chunk": repr(conc(body, m))})


# ------------------------------------------------------------------ file responses
def job_file(job) -> report.JobResult:
    forms = job.get("forms")
    raw_range = job.get("raw_range")
    eng = Engine(budget_s=1500)
    eng.token_alphabet = "ctl"
    eng.render_opaque = True
    K = 3
    size_v, chunk_v = z3.Int("size"), z3.Int("chunk")
    eng.solver.add(size_v >= 0, chunk_v >= 1, size_v <= K * chunk_v)
    size, chunk = SInt(size_v), SInt(chunk_v)
    k = len(forms) if forms else 0
    Av = [z3.Int(f"a{i}") for i in range(k)]
    Bv = [z3.Int(f"b{i}") for i in range(k)]
    eng.solver.add(*[a >= 0 for a in Av], *[b >= 0 for b in Bv])
    specs = [(C2.C3._D(f[0] == "a", SInt(a)), C2.C3._D(f[1] == "b", SInt(b))) for f, a, b in zip(forms or [], Av, Bv)]
    shims, osh = C2.install_shims(size, specs, K)
    for mod, kk, v in C5.shims_for().entries:
        shims.add(mod, **{kk: v})
    ifk = job.get("if_range")
    rsym = None
    if job.get("range_chars") is not None:
        rsym = SStr.fresh(job["range_chars"], "r", 0, 255, eng.solver)
        C5.printable_latin1(eng, rsym)
        shims.add(R, re=ReShim, int=int_shim)

    def fn():
        hdrs = []
        if forms:
            hdrs.append(("range", "bytes=x"))
        elif raw_range is not None:
            hdrs.append(("range", raw_range))
        elif rsym is not None:
            hdrs.append(("range", rsym))
        if ifk == "etag":
            hdrs.append(("if-range", '"' + R.FileResponseMixin.generate_etag(C2.Stat(size)) + '"'))
        elif ifk == "empty":
            hdrs.append(("if-range", ""))
        elif ifk == "other":
            hdrs.append(("if-range", '"x"'))
        both(cur(), lambda iface: (WR if iface == "wsgi" else AR).FileResponse("/d/file.bin", content_type=job.get("ctype", "text/plain"),
                                                                                  stat_result=C2.Stat(size), chunk_size=chunk),
             method=job.get("method", "GET"), hdrs=hdrs)
        if job.get("twin"):
            raise Fail("twin-assert-false")

    def desc(m):
        d = {"size": m.eval(size_v, True).as_long(), "chunk_size": m.eval(chunk_v, True).as_long(), "if_range": ifk}
        if forms:
            d["range"] = C2.C3.header_of(forms, [m.eval(a, True).as_long() for a in Av], [m.eval(b, True).as_long() for b in Bv])
        elif rsym is not None:
            d["range"] = repr(conc(rsym, m))
        else:
            d["range"] = raw_range
        return d
    SSeq.NORMALIZE = False
    return _run(job, eng, fn, shims, desc)


# ------------------------------------------------------------------ request view
HEADER_NAMES = ["accept", "content-type", "content-length", "cookie", "x-http-method-override", "http-custom", "x-forwarded-http-version", "transfer-encoding"]


def job_reqview(job) -> report.JobResult:
    name, n = job["header"], job["n"]
    eng = Engine(budget_s=900)
    val = SStr.fresh(n, "v", 0, 255, eng.solver)
    C5.printable_latin1(eng, val)
    from harness.c16 import rt_shims
    shims = rt_shims().add(RQ, int=int_shim, max=__import__("engine.shims", fromlist=["max_shim"]).max_shim)
    SSeq.NORMALIZE = False
    SSeq.CONST_HASH = name == "cookie"  # the cookie jar's keys are proxies (as in C16)

    def views():
        key = {"content-type": "CONTENT_TYPE", "content-length": "CONTENT_LENGTH"}.get(name, "HTTP_" + name.upper().replace("-", "_"))
        env = {"REQUEST_METHOD": "PUT", "PATH_INFO": "/p", "SCRIPT_NAME": "", "QUERY_STRING": "a=1", "SERVER_NAME": "h", "SERVER_PORT": "80",
               "wsgi.url_scheme": "http", "REMOTE_ADDR": "1.2.3.4", "REMOTE_PORT": "5", key: val, "HTTP_HOST": "example.org"}
        sc = {"type": "http", "method": "PUT", "path": "/p", "root_path": "", "query_string": b"a=1", "scheme": "http", "server": ("h", 80),
              "client": ("1.2.3.4", 5), "headers": [(b"host", b"example.org"), (name.encode(), SBytes(val.items))]}
        return WQ.Request(env), AQ.Request(sc)

    def observe(req):
        o: Dict[str, Any] = {}
        o["method"] = req.method
        o["headers"] = sorted((k, v) for k, v in req.headers.items() if isinstance(k, str)) if True else None
        o["header_names"] = sorted(str(k) for k in req.headers.keys())
        ct = req.content_type
        o["content_type"] = (ct.type, sorted(ct.options.items(), key=lambda kv: str(kv[0]))) if name == "content-type" else str(ct)
        o["content_length"] = req.content_length
        if name == "cookie":
            o["cookies"] = [(k, v) for k, v in req.cookies.items()]
        if name == "accept":
            o["accepts_json"] = req.accepts("application/json")
            o["accepted"] = [(m.main_type, m.sub_type) for m in req.accepted_types]
        o["client"] = tuple(req.client)
        o["url"] = str(req.url)
        o["query"] = req.query_params.multi_items()
        return o

    def same(e, a, b, path="") -> Optional[str]:
        if isinstance(a, (list, tuple)) and isinstance(b, (list, tuple)):
            if len(a) != len(b):
                return f"{path}: length {len(a)} vs {len(b)}"
            for i, (x, y) in enumerate(zip(a, b)):
                d = same(e, x, y, f"{path}[{i}]")
                if d:
                    return d
            return None
        if isinstance(a, (SSeq, str)) and isinstance(b, (SSeq, str)):
            return None if gw.same_items(e, a, b) else f"{path}: text differs"
        if isinstance(a, (SInt, int)) and isinstance(b, (SInt, int)) and not isinstance(a, bool) and not isinstance(b, bool):
            return None if not e.check(term_of(a) != term_of(b)) else f"{path}: number differs"
        if type(a).__name__ == "SBool" or type(b).__name__ == "SBool":
            return None if bool(a) == bool(b) else f"{path}: flag differs"
        return None if a == b else f"{path}: {a!r} vs {b!r}"

    def fn():
        w, a = views()
        ow, oa = observe(w), observe(a)
        for k in ow:
            d = same(cur(), ow[k], oa[k], k)
            if d:
                raise Fail("request-views-differ", d)
        if job.get("twin"):
            raise Fail("twin-assert-false")
    return _run(job, eng, fn, shims, lambda m: {"header": name, "value": repr(conc(val, m))})


# ------------------------------------------------------------------ apps
def job_apps(job) -> report.JobResult:
    app_kind, n = job["app"], job.get("n", 0)
    eng = Engine(budget_s=1200)
    SSeq.NORMALIZE = False
    if app_kind in ("files", "pages"):
        path = SStr.fresh(n, "p", 0, 0x10FFFF, eng.solver)
        if n >= 3:  # as in C07: the WSGI presentation of non-ASCII text forks per encoding class; beyond 2 characters the path is ASCII
            for c in path.items:
                eng.solver.add(c.e < 128)
        path = SStr([ord(c) for c in job.get("pre", "")] + path.items + [ord(c) for c in job.get("post", "")])
        shims = C7.make_shims()

        def fn():
            outs = []
            for iface in ("wsgi", "asgi"):
                try:
                    st, opened, redirs = C7.run_app(iface, app_kind, path)
                    outs.append(("ok", st, opened, [r.path for r in redirs]))
                except Exception as ex:  # noqa: BLE001
                    outs.append(("raise", type(ex).__name__))
            a, b = outs
            if a[0] != b[0] or (a[0] == "raise" and a[1] != b[1]):
                raise Fail("stacks-differ", f"{a[:2]} vs {b[:2]}")
            if a[0] == "ok":
                if a[1] != b[1] or len(a[2]) != len(b[2]) or len(a[3]) != len(b[3]):
                    raise Fail("stacks-differ", f"status/opened/redirects {a[1]},{len(a[2])},{len(a[3])} vs {b[1]},{len(b[2])},{len(b[3])}")
                for x, y in list(zip(a[2], b[2])) + list(zip(a[3], b[3])):
                    if not gw.same_items(cur(), x, y):
                        raise Fail("stacks-differ", "file opened / redirect target differs")
        return _run(job, eng, fn, shims, lambda m: {"app": app_kind, "path": repr(conc(path, m))})
    if app_kind == "router":
        templates = C8.TABLES[job["table"]]
        path = SStr.fresh(n, "x", 0, C8.MAXCP, eng.solver)
        shims = C8.routing_shims()

        def fn():
            outs = []
            for iface in ("wsgi", "asgi"):
                try:
                    st, eps = C8.run_router(iface, templates, path)
                    hit = [(ep.i, ep.calls[0]) for ep in eps if ep.calls]
                    outs.append(("ok", "hit" if hit else str(st)[:3], hit))
                except Exception as ex:  # noqa: BLE001
                    outs.append(("raise", type(ex).__name__))
            a, b = outs
            if a[:2] != b[:2]:
                raise Fail("stacks-differ", f"{a[:2]} vs {b[:2]}")
            if a[0] == "ok":
                if [h[0] for h in a[2]] != [h[0] for h in b[2]]:
                    raise Fail("stacks-differ", "different route dispatched")
                for (i, pa), (_, pb) in zip(a[2], b[2]):
                    if sorted(pa or {}) != sorted(pb or {}):
                        raise Fail("stacks-differ", "path parameter names")
        return _run(job, eng, fn, shims, lambda m: {"routes": templates, "path": repr(conc(path, m))})
    if app_kind == "conditional":
        return job_conditional(job)
    if app_kind == "subpaths":
        hi = 0x10FFFF
        p1 = SStr.fresh(job["l1"], "p", 1, hi, eng.solver)
        p2 = SStr.fresh(job["l2"], "q", 1, hi, eng.solver)
        root = SStr.fresh(job["lr"], "r", 1, hi, eng.solver)
        path = SStr.fresh(job["lp"], "x", 1, hi, eng.solver)

        def fn():
            from engine.forksym import Pruned
            outs = []
            for iface in ("wsgi", "asgi"):
                Sub = WRT.Subpaths if iface == "wsgi" else ART.Subpaths
                a, b = C9.Recorder("a"), C9.Recorder("b")
                ea, eb = (a.wsgi, b.wsgi) if iface == "wsgi" else (a.asgi, b.asgi)
                try:
                    app = Sub((p1, Sub((p2, eb)))) if job.get("nested") else Sub((p1, ea), (p2, eb))
                except AssertionError:
                    raise cur()._raise(Pruned())
                status, final = C9.call_app(iface, app, root, path)
                outs.append((("hit-a" if a.seen else "hit-b" if b.seen else str(status)[:3]), [(x["root"], x["path"]) for x in a.seen + b.seen], final))
            (ka, sa, fa), (kb, sb, fb) = outs
            if ka != kb or len(sa) != len(sb):
                raise Fail("stacks-differ", f"{ka} vs {kb}")
            for (r1, q1), (r2, q2) in zip(sa, sb):
                if not (gw.same_items(cur(), r1, r2) and gw.same_items(cur(), q1, q2)):
                    raise Fail("stacks-differ", "sub-application sees different root path / path")
            if not (gw.same_items(cur(), fa["root"], fb["root"]) and gw.same_items(cur(), fa["path"], fb["path"])):
                raise Fail("stacks-differ", "request left in different state")
        return _run(job, eng, fn, Shims(), lambda m: {"prefix1": repr(conc(p1, m)), "prefix2": repr(conc(p2, m)), "root": repr(conc(root, m)), "path": repr(conc(path, m))})
    if app_kind == "hosts":
        table = C9.HOST_TABLES[job["table"]]
        host = SStr.fresh(n, "h", 0, 255, eng.solver)
        shims = Shims().add(RT, re=ReShim)

        def fn():
            outs = []
            for iface in ("wsgi", "asgi"):
                Hosts = WRT.Hosts if iface == "wsgi" else ART.Hosts
                recs = [C9.Recorder(str(i)) for i in range(len(table))]
                app = Hosts(*[(p, (r.wsgi if iface == "wsgi" else r.asgi)) for p, r in zip(table, recs)])
                status, _ = C9.call_app(iface, app, "", "/", host)
                hit = [i for i, r in enumerate(recs) if r.seen]
                outs.append(hit if hit else str(status)[:3])
            if outs[0] != outs[1]:
                raise Fail("stacks-differ", f"{outs[0]} vs {outs[1]}")
        return _run(job, eng, fn, shims, lambda m: {"table": table, "host": repr(conc(host, m))})
    raise KeyError(app_kind)


def job_conditional(job) -> report.JobResult:
    """static file app with validators on both stacks over the symbolic file state of C14"""
    eng = Engine(budget_s=600)
    eng.token_alphabet = "ctl"
    eng.render_opaque = True
    m_v, c_v, s_v = z3.Int("mtime"), z3.Int("ctime"), z3.Int("size")
    eng.solver.add(m_v >= 10 ** 12, c_v >= m_v, s_v >= 0, s_v <= 10 ** 9, c_v <= 4 * 10 ** 12)
    osh = C14.OsShim()
    shims = C14.make_shims(osh)
    form = job["form"]
    app_kind = job.get("which", "files")

    def fn():
        osh.state = C14.SymStat(SInt(m_v), SInt(c_v), SInt(s_v))
        first = C14.request("wsgi", app_kind, osh, {})
        hv = C14.validators(form, first[1]) if form != "none" else {}
        if job.get("stale"):
            hv = {k: (v.replace('"', '"0', 1) if k == "If-None-Match" else "Tue, 14 Nov 2023 22:13:20 GMT") for k, v in hv.items()}
        outs = [C14.request(iface, app_kind, osh, hv) for iface in ("wsgi", "asgi")]
        (sa, ha, ba), (sb, hb, bb) = outs
        na = (sa, sorted(ha.items()), list(ba))
        nb = (sb, sorted(hb.items()), list(bb))
        d = gw.diff_norm(cur(), (na[0], na[1], na[2]), (nb[0], nb[1], nb[2]))
        if d:
            raise Fail("stacks-differ", d)
    return _run(job, eng, fn, shims, lambda m: {"form": form, "mtime": m.eval(m_v, True).as_long(), "ctime": m.eval(c_v, True).as_long(), "size": m.eval(s_v, True).as_long()})


def job_reqbody(job) -> report.JobResult:
    """the same chunked body (symbolic chunk count, symbolic emptiness of each chunk) through wsgi.input and ASGI messages"""
    import sys
    from . import c10 as C10
    sys.unraisablehook = lambda *a: None
    prog = job["prog"]
    eng = Engine(budget_s=600)

    def fn():
        e = cur()
        n = 1 + e.choose(3, "nchunks")
        kind = "json" if prog in ("json", "json-bom") else "raw"
        chunks = C10.chunks_for(kind, n)
        if prog == "json-bom":  # a UTF-8 byte order mark in front of the document: whatever the answer is, both stacks give the same
            chunks = [b"\xef\xbb\xbf" + chunks[0]] + chunks[1:]
        empties = [bool(e.choose(2, f"empty{i}")) for i in range(n)] if kind == "raw" else [False] * n
        wire = [b"" if empties[i] else chunks[i] for i in range(n)]
        e.path_notes["wire"] = wire
        ctype = "application/json" if kind == "json" else "application/octet-stream"
        # WSGI: the server hands the non-empty chunks through wsgi.input.read()
        q = [c for c in wire if c]

        class Inp:
            def read(self, k=-1):
                return q.pop(0) if q else b""
        wreq = WQ.Request({"REQUEST_METHOD": "POST", "CONTENT_TYPE": ctype, "wsgi.input": Inp(), "QUERY_STRING": ""})
        if prog == "body":
            wv = wreq.body
        elif prog == "stream":
            wv = b"".join(wreq.stream())
        else:
            try:
                wv = wreq.json
            except HTTPException as ex:
                wv = ("http", ex.status_code)
        msgs = [{"type": "http.request", "body": c, "more_body": i < n - 1} for i, c in enumerate(wire)]

        async def main():
            it = iter(msgs)

            async def receive():
                return next(it)
            areq = AQ.Request({"type": "http", "method": "POST", "headers": [(b"content-type", ctype.encode())], "path": "/", "query_string": b""}, receive)
            if prog == "body":
                return await areq.body
            if prog == "stream":
                return b"".join([c async for c in areq.stream()])
            try:
                return await areq.json
            except HTTPException as ex:
                return ("http", ex.status_code)
        import asyncio
        from engine.vloop import VLoop
        loop = VLoop()
        try:
            av = loop.run_until_complete(main())
        finally:
            loop.close()
        if wv != av:
            raise Fail("request-views-differ", f"{prog}: wsgi {wv!r} vs asgi {av!r} for chunks {wire}")
    return _run(job, eng, fn, Shims(), lambda m: {"chunks": [c.decode() for c in cur().path_notes.get("wire", [])]})


def job_formcount(job) -> report.JobResult:
    """multipart forms whose part count sits at the request accessors' built-in limit (Request.form takes no limit argument): both stacks
    must agree on accept / 413 and on the items.  The part count and the ASGI message size are solver-decided choices over an enumerated list;
    everything else is concrete -- this job is a differential RECIPE, not a symbolic exploration of the decoder (C01 / C15 do that)."""
    import asyncio
    eng = Engine(budget_s=600)
    COUNTS = [1, 323, 324, 325, 400]

    def run_both(count, msg):
        boundary = b"bnd"
        body = b"".join(b'--bnd\r\nContent-Disposition: form-data; name="f%d"\r\n\r\nv%d\r\n' % (i, i) for i in range(count)) + b"--bnd--\r\n"
        ctype = "multipart/form-data; boundary=bnd"

        class Inp:
            def __init__(self):
                self.pos = 0

            def read(self, k=-1):
                k = len(body) if k is None or k < 0 else k
                out_ = body[self.pos:self.pos + k]
                self.pos += len(out_)
                return out_

        def outcome(f):
            try:
                v = f()
                return ("ok", [(k, x) for k, x in v.multi_items()])
            except HTTPException as ex:
                return ("http", ex.status_code)
        wv = outcome(lambda: WQ.Request({"REQUEST_METHOD": "POST", "CONTENT_TYPE": ctype, "wsgi.input": Inp(), "QUERY_STRING": "", "CONTENT_LENGTH": str(len(body))}).form)
        msgs = [body[i:i + msg] for i in range(0, len(body), msg)]

        async def main():
            it = iter([{"type": "http.request", "body": c, "more_body": i < len(msgs) - 1} for i, c in enumerate(msgs)])

            async def receive():
                return next(it)
            return await AQ.Request({"type": "http", "method": "POST", "headers": [(b"content-type", ctype.encode())], "path": "/", "query_string": b""}, receive).form
        try:
            av = ("ok", [(k, x) for k, x in asyncio.run(main()).multi_items()])
        except HTTPException as ex:
            av = ("http", ex.status_code)
        return wv, av

    def fn():
        e = cur()
        count = COUNTS[e.choose(len(COUNTS), "count")]
        msg = [4096, 100][e.choose(2, "msg")]
        e.path_notes["parts"] = count
        e.path_notes["asgi_message_bytes"] = msg
        wv, av = run_both(count, msg)
        if wv != av:
            raise Fail("form-differs-between-stacks", f"{count} parts: wsgi {str(wv)[:60]} vs asgi {str(av)[:60]}")
        if wv[0] == "ok" and len(wv[1]) != count:
            raise Fail("form-items-lost", f"{len(wv[1])} of {count}")
    return _run(job, eng, fn, Shims(), lambda m: {"parts": cur().path_notes.get("parts"), "asgi_message_bytes": cur().path_notes.get("asgi_message_bytes")})


def job_formlimit(job) -> report.JobResult:
    """Request subclasses that pass max_form_memory_size through the documented `_parse_multipart` hook (the way the repository's own tests do): a form
    of one text field and one uploaded file, both stacks must agree on accept / 413 for every limit.  The limit is a solver-chosen value from an
    enumerated list around the field size and the file size, the ASGI message size likewise; the rest is concrete (a differential RECIPE)."""
    import asyncio
    eng = Engine(budget_s=600)
    FIELD, FILE = 16, 4096
    LIMITS = [None, 0, FIELD - 1, FIELD, FIELD + 1, 1024, FIELD + FILE - 1, FIELD + FILE, 1 << 20]

    def run_both(limit, msg):
        body = (b'--bnd\r\nContent-Disposition: form-data; name="note"\r\n\r\n' + b"n" * FIELD + b"\r\n"
                b'--bnd\r\nContent-Disposition: form-data; name="upload"; filename="big.bin"\r\nContent-Type: application/octet-stream\r\n\r\n'
                + bytes(i % 251 for i in range(FILE)) + b"\r\n--bnd--\r\n")
        ctype = "multipart/form-data; boundary=bnd"
        import baize.multipart_helper as MH
        from baize.datastructures import FormData, UploadFile

        class WLimited(WQ.Request):
            def _parse_multipart(self, boundary, charset):
                return FormData(MH.parse_stream(self.stream(), boundary, charset, file_factory=UploadFile, max_form_memory_size=limit))

        class ALimited(AQ.Request):
            async def _parse_multipart(self, boundary, charset):
                return FormData(await MH.parse_async_stream(self.stream(), boundary, charset, file_factory=UploadFile, max_form_memory_size=limit))

        class Inp:
            def __init__(self):
                self.pos = 0

            def read(self, k=-1):
                k = len(body) if k is None or k < 0 else k
                out_ = body[self.pos:self.pos + k]
                self.pos += len(out_)
                return out_

        def norm(v):
            return [(k, x if isinstance(x, str) else ("file", x.filename, x.read())) for k, x in v.multi_items()]
        try:
            wv = ("ok", norm(WLimited({"REQUEST_METHOD": "POST", "CONTENT_TYPE": ctype, "wsgi.input": Inp(), "QUERY_STRING": "", "CONTENT_LENGTH": str(len(body))}).form))
        except HTTPException as ex:
            wv = ("http", ex.status_code)
        msgs = [body[i:i + msg] for i in range(0, len(body), msg)]

        async def main():
            it = iter([{"type": "http.request", "body": c, "more_body": i < len(msgs) - 1} for i, c in enumerate(msgs)])

            async def receive():
                return next(it)
            form = await ALimited({"type": "http", "method": "POST", "headers": [(b"content-type", ctype.encode())], "path": "/", "query_string": b""}, receive).form
            return [(k, x if isinstance(x, str) else ("file", x.filename, await x.aread())) for k, x in form.multi_items()]
        try:
            av = ("ok", asyncio.run(main()))
        except HTTPException as ex:
            av = ("http", ex.status_code)
        return wv, av

    def fn():
        e = cur()
        limit = LIMITS[e.choose(len(LIMITS), "limit")]
        msg = [65536, 100][e.choose(2, "msg")]
        e.path_notes["max_form_memory_size"] = limit
        e.path_notes["asgi_message_bytes"] = msg
        wv, av = run_both(limit, msg)
        if wv != av:
            raise Fail("form-differs-between-stacks", f"limit {limit}: wsgi {str(wv)[:60]} vs asgi {str(av)[:60]}")
        want = "http" if limit is not None and limit < FIELD else "ok"
        if wv[0] != want:
            raise Fail("limit-counts-something-else-than-field-bytes", f"limit {limit}: {wv[0]} (field bytes {FIELD}, file bytes {FILE})")
    return _run(job, eng, fn, Shims(), lambda m: {"max_form_memory_size": cur().path_notes.get("max_form_memory_size"), "asgi_message_bytes": cur().path_notes.get("asgi_message_bytes")})


def jobs(tier: str):
    b = META["bounds"][tier]
    out = [dict(name="reqbody/form-part-count-at-the-limit", family="formcount", recipe="form", weight=60),
           dict(name="reqbody/form-memory-limit-through-the-subclass-hook", family="formlimit", recipe="form", weight=60)]
    for recipe in ("response", "text-bytes", "text-str", "html", "json", "redirect"):
        out.append(dict(name=f"resp/{recipe}/status", family="resp", recipe=recipe, what="status", weight=70))
        for n in range(0, b["text_chars"] + 1):
            out.append(dict(name=f"resp/{recipe}/header{n}", family="resp", recipe=recipe, what="header", n=n))
            if n <= 2:  # each quoted cookie character renders up to 4 placeholder characters: 3 exhaust the class-correct pool (C13/C16 go to 4)
                out.append(dict(name=f"resp/{recipe}/cookie{n}", family="resp", recipe=recipe, what="cookie", n=n, weight=5 ** n))
    for recipe in ("text-media-with-charset", "html-charset-latin1", "text-media-not-text", "json-kwargs"):
        out.append(dict(name=f"resp/{recipe}/status", family="resp", recipe=recipe, what="status", weight=70))
        out.append(dict(name=f"resp/{recipe}/header1", family="resp", recipe=recipe, what="header", n=1))
    for n in (0, 1, 2):
        out.append(dict(name=f"resp/html-charset-latin1/text{n}", family="resp", recipe="html-charset-latin1", what="text", n=n))
    for n in range(0, b["text_chars"] + 1):
        out.append(dict(name=f"resp/text-bytes/body{n}", family="resp", recipe="text-bytes", what="body", n=n))
        out.append(dict(name=f"resp/text-bytes/body{n}/HEAD", family="resp", recipe="text-bytes", what="body", n=n, method="HEAD"))
        out.append(dict(name=f"resp/text-str/text{n}", family="resp", recipe="text-str", what="text", n=n))
        out.append(dict(name=f"resp/redirect/url{n}", family="resp", recipe="redirect", what="url", n=n, weight=8 ** n))
    for cls in ("stream", "sse"):
        for n in range(0, 3):
            out.append(dict(name=f"stream/{cls}/n{n}", family="stream", recipe=cls, cls=cls, items=n))
    for n in (1, 2):
        out.append(dict(name=f"stream/sse/n{n}+empty-event", family="stream", recipe="sse", cls="sse", items=n, with_empty_event=True))
    for prog in ("body", "stream", "json", "json-bom"):
        out.append(dict(name=f"reqbody/{prog}", family="reqbody", recipe=prog, prog=prog, weight=50))
    for l1, l2, lr, lp in [(2, 0, 1, 2), (2, 2, 1, 3), (0, 2, 2, 2), (2, 1, 0, 4)]:
        out.append(dict(name=f"apps/subpaths/p{l1}q{l2}r{lr}x{lp}", family="apps", recipe="subpaths", app="subpaths", l1=l1, l2=l2, lr=lr, lp=lp))
        out.append(dict(name=f"apps/subpaths-nested/p{l1}q{l2}r{lr}x{lp}", family="apps", recipe="subpaths", app="subpaths", l1=l1, l2=l2, lr=lr, lp=lp, nested=True))
    for t in range(len(C9.HOST_TABLES)):
        for n in (0, 3, 4):
            out.append(dict(name=f"apps/hosts/t{t}/n{n}", family="apps", recipe="hosts", app="hosts", table=t, n=n))
    fsets: List[Optional[List[str]]] = [None] + [list(f) for k in (1, 2) for f in itertools.product(C2.C3.FORMS, repeat=k)]
    for forms in fsets:
        for method in ("GET", "HEAD"):
            for ifk in (None, "etag", "other", "empty"):
                if forms and len(forms) > 1 and ifk not in (None,):
                    continue
                out.append(dict(name=f"file/{method}/{','.join(forms) if forms else 'norange'}/if-{ifk}", family="file", recipe="file", forms=forms, method=method,
                                if_range=ifk, weight=9 ** (len(forms) if forms else 0)))
    for raw in ("", "bytes=", "items=0-1", "bytes=abc", "bytes=0-0,", " bytes=0-1"):
        out.append(dict(name=f"file/GET/raw:{raw!r}", family="file", recipe="file", raw_range=raw, method="GET"))
    for n in range(0, (6 if tier == "quick" else 7) + 1):
        out.append(dict(name=f"file/GET/range-text{n}", family="file", recipe="file", range_chars=n, method="GET", weight=4 ** n))
    out.append(dict(name="file/GET/octet", family="file", recipe="file", forms=["ab"], method="GET", ctype="application/octet-stream"))
    for name in HEADER_NAMES:
        for n in range(0, b["text_chars"] + 1 + (1 if name in ("content-length",) else 0)):
            if n >= 3 and name in ("accept", "content-type"):
                continue  # 3 characters can spell a parameter 'k=v' whose symbolic name becomes a dict key next to concrete ones (C12 covers these texts)
            out.append(dict(name=f"reqview/{name}/{n}", family="reqview", recipe=name, header=name, n=n, weight=4 ** n))
    for app in ("files", "pages"):
        for n in range(0, b["path_chars"] + 1):
            out.append(dict(name=f"apps/{app}/free{n}", family="apps", recipe=app, app=app, n=n, weight=4 ** n))
        out.append(dict(name=f"apps/{app}/dotdot+4", family="apps", recipe=app, app=app, n=4, pre="/../", weight=300))
        out.append(dict(name=f"apps/{app}/2+index", family="apps", recipe=app, app=app, n=2, post="/index.html", weight=30))
    for t in ("int-str-lit", "any-lit", "two-params", "special-literals", "root"):
        for n in range(0, b["path_chars"] + 1):
            out.append(dict(name=f"apps/router/{t}/n{n}", family="apps", recipe="router", app="router", table=t, n=n, weight=3 ** n))
    for which in ("files", "pages"):
        for form in ("none", "etag", "weak", "list-weak-last", "last-modified", "both", "star"):
            out.append(dict(name=f"apps/conditional/{which}/{form}", family="apps", recipe="conditional", app="conditional", which=which, form=form))
            if form not in ("none", "star"):
                out.append(dict(name=f"apps/conditional/{which}/{form}/stale", family="apps", recipe="conditional", app="conditional", which=which, form=form, stale=True))
    out.append(dict(name="twin/resp", family="resp", recipe="response", what="header", n=1, twin=True))
    return out


def run_job(job):
    return {"resp": job_resp, "stream": job_stream, "file": job_file, "reqview": job_reqview, "apps": job_apps, "reqbody": job_reqbody, "formcount": job_formcount, "formlimit": job_formlimit}[job["family"]](job)


def replay(rec) -> int:
    print("replay C04: differential finding; re-run `./check C04 --only %s`; inputs: %s" % (rec["witness"].get("job"), rec["witness"].get("inputs")))
    return 1
