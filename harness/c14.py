"""C14 -- conditional requests never yield a stale 304 and always revalidate a fresh copy.

Real code run: Files/Pages.__call__ and file_response (both interfaces), BaseFiles.if_none_match / if_modified_since /
check_path_is_file / set_response_headers, FileResponse.__init__/generate_common_headers/generate_etag/handle_all,
Response.__call__ (304).

Histories over a SYMBOLIC file clock: creation / modification / request instants are integer milliseconds (z3), so are
the sizes.  A write or touch at instant t sets mtime = ctime = t; the "preserved-mtime" recipe starts from a file whose
ctime is later than its mtime (copied with its old mtime).  The solver decides, for every ordering and distance of the
instants, whether a 304 can be stale and whether an unchanged file revalidates.
History shapes (enumerated): R0 ; op ; R1(validators of R0 in form F)  [thorough: ; op ; R2(validators of R0 or R1)].
"""
from __future__ import annotations

import importlib
import itertools
from email.utils import parsedate_to_datetime as _real_parsedate
from typing import Any, Dict, List, Optional

import z3

import baize.asgi.responses as AR
import baize.asgi.staticfiles as AS
import baize.responses as R
import baize.staticfiles as SF
import baize.wsgi.responses as WR
import baize.wsgi.staticfiles as WS
from baize.exceptions import HTTPException

from engine import report
from engine.forksym import Engine, SInt, Unsupported, conc, cur, term_of
from engine.shims import Shims, int_shim
from engine.vloop import drive

PID = "C14"
OPS = ["none", "touch", "rewrite-same-size", "rewrite-other-size", "replace-keeping-older-mtime"]
FORMS = ["etag", "weak", "list-first", "list-last", "list-weak-last", "list-nospace", "list-space-before-comma", "list-tab-padded", "weak-tab-padded", "star", "last-modified",
         "both", "both-weak-list"]

META = {
    "functions": lambda: [WS.Files.__call__, WS.Files.file_response, WS.Pages.__call__, AS.Files.__call__, AS.Files.file_response, AS.Pages.__call__,
                          SF.BaseFiles.if_none_match, SF.BaseFiles.if_modified_since, SF.BaseFiles.check_path_is_file, SF.BaseFiles.set_response_headers,
                          R.FileResponseMixin.generate_etag, R.FileResponseMixin.generate_common_headers, WR.FileResponse.__init__, AR.FileResponse.__init__],
    "engines": ["E-FS (forksym, z3 LIA over millisecond instants and sizes)"],
    "stubs": ["baize.staticfiles.os.stat -> the symbolic file state of the moment (st_mtime/st_ctime are symbolic instants, st_size a symbolic int)",
              "baize.responses.formatdate / baize.staticfiles.parsedate_to_datetime -> inverse pair at one-second granularity over symbolic instants "
              "(floor(ms/1000) rendered as a canonical token)", "baize.staticfiles.int -> floor to seconds for symbolic instants",
              "sha1 is the real one, applied to the canonical token text of mtime-size (collision freedom of SHA-1 assumed)"],
    "assumptions": ["file clock: instants strictly increase along the history; a write/touch at instant t sets mtime = ctime = t (no utime() into the past "
                    "or future), except the initial 'preserved-mtime' state with ctime > mtime", "requests are HEAD (body delivery is C02's subject)",
                    "'changed' for the stale-304 clause means: size differs, or mtime moved by >= 1 s (the statement's own granularity)"],
    "bounds": {"quick": {"history": "R0;op;R1 and R0;op;R1;op;R2", "ops": len(OPS), "forms": len(FORMS)},
               "thorough": {"history": "up to R0;op;R1;op;R2;op;R3", "ops": len(OPS), "forms": len(FORMS)}},
    "outside": ["histories longer than the bound", "mtime set by utime()", "hash collisions", "real file systems with coarse timestamp granularity"],
    "expect_kinds": {"all": ["304", "200"]},
}


class Fail(Exception):
    def __init__(self, klass, detail=""):
        self.klass, self.detail = klass, detail


class SymTime:
    """a timestamp in seconds given as integer milliseconds"""

    def __init__(self, ms):
        self.ms = ms

    def __format__(self, spec):
        """'' / repr: the millisecond count itself (injective, like the float's repr); '.0f': Python's round-half-even to whole
        seconds (x.5 is exact in binary, so the tie rule is the float's); '.3f': the millisecond count again; anything else is reported"""
        ms = term_of(self.ms)
        if spec in ("", ".3f", "r"):
            return cur().render_int(ms)
        if spec == ".0f":
            q, r = ms / 1000, ms % 1000
            up = z3.Or(r > 500, z3.And(r == 500, q % 2 == 1))
            return cur().render_int(z3.simplify(z3.If(up, q + 1, q)))
        raise cur()._raise(Unsupported(f"format spec {spec!r} on a symbolic timestamp"))

    __str__ = lambda self: cur().render_int(term_of(self.ms))  # noqa: E731

    def seconds(self) -> SInt:
        return SInt(z3.simplify(term_of(self.ms) / 1000))


class SymStat:
    st_mode = 0o100644

    def __init__(self, m, c, size):
        self.st_mtime, self.st_ctime, self.st_size = SymTime(m), SymTime(c), size


def formatdate_stub(t=None, localtime=False, usegmt=False):
    if isinstance(t, SymTime):
        return cur().render_int(term_of(t.seconds()))
    from email.utils import formatdate
    return formatdate(t, localtime, usegmt)


class _TS:
    def __init__(self, v):
        self.v = v

    def timestamp(self):
        return self.v


def parsedate_stub(s):
    t = cur().term_of_text(s) if isinstance(s, str) and s and not s[0].isdigit() else None
    if t is not None:
        return _TS(SInt(t))
    return _real_parsedate(s)


def int_seconds(x=0, *a):
    if isinstance(x, SymTime):
        return x.seconds()
    return int_shim(x, *a)


class OsShim:
    def __init__(self):
        self.state: Optional[SymStat] = None

    def stat(self, p):
        if p.rstrip("/") == "/srv/www/f.txt":
            return self.state
        if p.rstrip("/") == "/srv/www":
            class D:
                st_mode = 0o040755
                st_mtime = st_ctime = 0.0
                st_size = 0
            return D()
        raise FileNotFoundError(p)

    def __getattr__(self, k):
        import os
        return getattr(os, k)


APP_KW: Dict[str, Any] = {}  # non-default constructor arguments of the static-file app for the current job (cacheability, max_age)


def request(iface: str, app_kind: str, osh: OsShim, headers: Dict[str, str]):
    mod = WS if iface == "wsgi" else AS
    app = (mod.Files if app_kind == "files" else mod.Pages)("/srv/www", **APP_KW)
    if iface == "wsgi":
        env = {"REQUEST_METHOD": "HEAD", "PATH_INFO": "/f.txt", "SCRIPT_NAME": ""}
        for k, v in headers.items():
            env["HTTP_" + k.upper().replace("-", "_")] = v
        calls = []
        body = b"".join(app(env, lambda s, h, e=None: calls.append((s, h))))
        status = int(calls[0][0].split()[0])
        hdrs = {k.lower(): v for k, v in calls[0][1]}
    else:
        scope = {"type": "http", "method": "HEAD", "path": "/f.txt", "root_path": "",
                 "headers": [(k.lower().encode(), v.encode("latin-1")) for k, v in headers.items()]}
        sent = []

        async def send(m):
            sent.append(m)

        async def receive():
            return {"type": "http.disconnect"}
        drive(app(scope, receive, send))
        status = sent[0]["status"]
        hdrs = {k.decode().lower(): v.decode("latin-1") for k, v in sent[0].get("headers", [])}
        body = b"".join(m.get("body", b"") for m in sent[1:])
    return status, hdrs, body


def validators(form: str, hdrs: Dict[str, str]) -> Dict[str, str]:
    et, lm = hdrs["etag"], hdrs["last-modified"]
    other = '"0123456789abcdef0123456789abcdef01234567"'
    if form == "etag":
        return {"If-None-Match": et}
    if form == "weak":
        return {"If-None-Match": "W/" + et}
    if form == "list-first":
        return {"If-None-Match": et + ", " + other}
    if form == "list-last":
        return {"If-None-Match": other + ", " + et}
    if form == "list-weak-last":
        return {"If-None-Match": "W/" + other + ", W/" + et}
    if form == "list-nospace":
        return {"If-None-Match": other + "," + et}
    if form == "list-space-before-comma":
        return {"If-None-Match": other + " ," + et + " , " + other}
    if form == "list-tab-padded":  # optional white space around list members is SP / HTAB (RFC 9110)
        return {"If-None-Match": other + ",\tW/" + et + "\t, " + other}
    if form == "weak-tab-padded":
        return {"If-None-Match": "\tW/" + et + "\t"}
    if form == "star":
        return {"If-None-Match": "*"}
    if form == "last-modified":
        return {"If-Modified-Since": lm}
    if form == "both":
        return {"If-None-Match": et, "If-Modified-Since": lm}
    if form == "both-weak-list":
        return {"If-None-Match": other + ", W/" + et, "If-Modified-Since": lm}
    raise KeyError(form)


# the process time zone (seconds east of UTC), a solver variable: whatever date routine the current source uses, a GMT date must denote
# the same instant under every zone.  The unchanged tree converts through an aware datetime and never asks for it.
UTC_OFFSET = z3.Int("process_utc_offset")


class _Struct:
    """stands for the time tuple email.utils.parsedate returns for a rendered date token"""

    def __init__(self, seconds: SInt):
        self.seconds = seconds


def parsedate_tuple_stub(s):
    t = cur().term_of_text(s) if isinstance(s, str) and s and not s[0].isdigit() else None
    if t is not None:
        return _Struct(SInt(t))
    from email.utils import parsedate
    return parsedate(s)


class TimeStub:
    """stands for the `time` module: mktime / timegm on a parsed date token (mktime reads the fields as LOCAL time)"""

    def __getattr__(self, k):
        import time as _t
        return getattr(_t, k)

    @staticmethod
    def mktime(st):
        if isinstance(st, _Struct):
            return SInt(term_of(st.seconds) - UTC_OFFSET)
        import time as _t
        return _t.mktime(st)


class _ParsedDT:
    """stands for the datetime a strptime-style routine returns for a rendered date token: naive (its timestamp() is read as LOCAL time,
    as the standard library documents) until a tzinfo is attached"""

    def __init__(self, seconds: SInt, aware: bool = False):
        self.seconds, self.aware = seconds, aware
        self.tzinfo = None

    def timestamp(self):
        return self.seconds if self.aware else SInt(term_of(self.seconds) - UTC_OFFSET)

    def replace(self, **kw):
        if set(kw) - {"tzinfo"}:
            raise cur()._raise(Unsupported("datetime.replace of date fields on a parsed date token"))
        return _ParsedDT(self.seconds, kw["tzinfo"] is not None)

    def astimezone(self, tz=None):
        return _ParsedDT(self.timestamp(), True)


class DatetimeStub:
    """stands for the `datetime` module or class, should the current source parse the date with it (the unchanged tree does not)"""

    def __getattr__(self, k):
        import datetime as _d
        return getattr(_d, k) if hasattr(_d, k) else getattr(_d.datetime, k)

    @property
    def datetime(self):
        return self

    @staticmethod
    def strptime(s, fmt):
        t = cur().term_of_text(s) if isinstance(s, str) and s and not s[0].isdigit() else None
        if t is not None:
            return _ParsedDT(SInt(t), "%z" in fmt)
        import datetime as _d
        return _d.datetime.strptime(s, fmt)


def timegm_stub(st):
    if isinstance(st, _Struct):
        return st.seconds
    import calendar
    return calendar.timegm(st)


class GuardedSha1:
    """hashlib.sha1 for text that contains rendered numbers: each rendered number is one atomic token here, so two of them written back
    to back (no separator) would hide digit-level collisions ('1.5'+'12' == '1.51'+'2').  That shape is reported, not guessed."""

    def __init__(self, data=b""):
        import hashlib
        self._h = hashlib.sha1()
        self._last = None
        self.update(data)

    def update(self, data):
        e = Engine.cur
        text = bytes(data).decode("latin-1")
        if e is not None and text:
            seq = ([self._last] if self._last is not None else []) + list(text)
            for a, b in zip(seq, seq[1:]):
                if e.is_token_char(a) and e.is_token_char(b) and a != b:
                    raise e._raise(Unsupported("two rendered numbers hashed back to back without a separator (digit-level collisions are not modelled)"))
            self._last = text[-1]
        self._h.update(data)

    def hexdigest(self):
        return self._h.hexdigest()

    def digest(self):
        return self._h.digest()


def make_shims(osh: OsShim) -> Shims:
    s = Shims()
    s.add(R, sha1=GuardedSha1)
    s.add(SF, os=osh, parsedate_to_datetime=parsedate_stub, int=int_seconds, parsedate=parsedate_tuple_stub, time=TimeStub(), timegm=timegm_stub)
    if hasattr(SF, "datetime"):
        s.add(SF, datetime=DatetimeStub())
    s.add(R, formatdate=formatdate_stub)
    return s


def job_history(job) -> report.JobResult:
    res = report.JobResult.new(job["name"])
    twin = job.get("twin", False)
    iface, app_kind = job["iface"], job["app"]
    APP_KW.clear()
    APP_KW.update(job.get("app_kw") or {})
    steps = job["steps"]  # list of (op, form, validators_from)
    init = job["init"]
    eng = Engine(budget_s=1200)
    eng.solver.add(UTC_OFFSET >= -12 * 3600, UTC_OFFSET <= 14 * 3600, UTC_OFFSET % 900 == 0)
    eng.token_alphabet = "ctl"
    eng.render_opaque = True
    n = len(steps)
    # instants: creation a0 <= c0 ; request instants r0 < ... ; modification instants between requests
    a0, c00, s0 = z3.Int("mtime0"), z3.Int("ctime0"), z3.Int("size0")
    eng.solver.add(a0 >= 10 ** 12, s0 >= 0, s0 <= 10 ** 9)
    if init == "fresh":
        eng.solver.add(c00 == a0)
    else:
        eng.solver.add(c00 > a0)  # copied with its old mtime preserved
    T = [z3.Int(f"t_req{i}") for i in range(n + 1)]
    Wt = [z3.Int(f"t_mod{i}") for i in range(n)]
    Sz = [z3.Int(f"size{i + 1}") for i in range(n)]
    eng.solver.add(T[0] >= c00)
    for i in range(n):
        eng.solver.add(Wt[i] > T[i], T[i + 1] >= Wt[i], Sz[i] >= 0, Sz[i] <= 10 ** 9, T[i + 1] <= 4 * 10 ** 12)
    # file states after each op
    states = [(a0, c00, s0)]
    for i, (op, _, _) in enumerate(steps):
        m, c, s = states[-1]
        if op == "none":
            states.append((m, c, s))
        elif op == "touch":
            states.append((Wt[i], Wt[i], s))
        elif op == "rewrite-same-size":
            states.append((Wt[i], Wt[i], s))
        elif op == "rewrite-other-size":
            eng.solver.add(Sz[i] != s)
            states.append((Wt[i], Wt[i], Sz[i]))
        else:
            # replaced by another file whose (older or equal) mtime was preserved: cp -p, rsync -t, tar, rollback
            om = z3.Int(f"old_mtime{i}")
            eng.solver.add(Sz[i] != s, om <= m, om >= 10 ** 12 - 10 ** 9)
            states.append((om, Wt[i], Sz[i]))
    osh = OsShim()
    shims = make_shims(osh)

    def fn():
        out = []
        osh.state = SymStat(SInt(states[0][0]), SInt(states[0][1]), SInt(states[0][2]))
        out.append(request(iface, app_kind, osh, {}))
        for i, (op, form, src) in enumerate(steps):
            st = states[i + 1]
            osh.state = SymStat(SInt(st[0]), SInt(st[1]), SInt(st[2]))
            hv = validators(form, out[src][1]) if out[src][0] == 200 else {}
            out.append(request(iface, app_kind, osh, hv))
        return out

    def on_path(e, r):
        kind, v = r
        klass = detail = None
        outcome = None
        try:
            if kind == "exc":
                if isinstance(v, HTTPException):
                    raise Fail("http-exception", str(v.status_code))
                raise Fail(f"exception:{type(v).__name__}", repr(v))
            if twin:
                raise Fail("twin-assert-false")
            st0, h0, b0 = v[0]
            if st0 != 200 or "etag" not in h0 or "last-modified" not in h0:
                raise Fail("first-response-not-200-with-validators", f"{st0} {sorted(h0)}")
            for i, (op, form, src) in enumerate(steps):
                status, hdrs, body = v[i + 1]
                if v[src][0] != 200:
                    continue
                m_src, c_src, s_src = states[src]
                m_now, c_now, s_now = states[i + 1]
                changed = z3.Or(s_now != s_src, m_now - m_src >= 1000)
                if op == "replace-keeping-older-mtime":
                    # another version of the file was put in place: changed unless it is the very version the validators describe
                    # (a rollback that restores the same mtime AND size -- then 304 is the right answer, see DESIGN section 6)
                    changed = z3.Or(s_now != s_src, m_now != m_src)
                same = z3.And(s_now == s_src, m_now == m_src, c_now == c_src)
                uses_etag = form != "last-modified"
                if status == 304:
                    if body:
                        raise Fail("304-with-body")
                    if form != "star" and e.check(changed):  # '*' matches any existing file by definition
                        raise Fail("stale-304", f"step {i + 1}: 304 for validators of response {src} ({form}) although the file changed (op sequence {[s[0] for s in steps[:i + 1]]})")
                    outcome = "304"
                elif status == 200:
                    if uses_etag and e.check(same):
                        raise Fail("unchanged-file-not-revalidated", f"step {i + 1}: validators of response {src} sent as '{form}' did not give 304 although the file is unchanged")
                    if hdrs.get("etag") == v[src][1]["etag"] and e.check(z3.Or(s_now != s_src, m_now != m_src)):
                        raise Fail("validators-not-renewed", "ETag identical although mtime/size differ")
                    lm = e.term_of_text(hdrs.get("last-modified", ""))
                    if lm is None or e.check(lm != m_now / 1000):
                        raise Fail("last-modified-not-current-mtime")
                    outcome = "200"
                else:
                    raise Fail("unexpected-status", str(status))
        except Fail as f:
            klass, detail = f.klass, f.detail
        if klass not in ("stale-304", "unchanged-file-not-revalidated", "validators-not-renewed", "last-modified-not-current-mtime"):
            e.last_sat = False
        m = e.witness()
        ev = lambda t: m.eval(t, True).as_long()  # noqa: E731
        wit = {"app_kw": job.get("app_kw") or {}, "iface": iface, "app": app_kind, "init": init, "steps": [list(s) for s in steps],
               "states": [[ev(a), ev(b), ev(c)] for a, b, c in states], "request_instants": [ev(t) for t in T], "process_utc_offset": ev(UTC_OFFSET)}
        with shims.off():
            cp = concrete_history(wit)
        if klass is not None:
            shape = "x"
            if klass in ("stale-304", "unchanged-file-not-revalidated"):
                shape = steps[-1][1]
                if klass == "stale-304":
                    sts = wit["states"]
                    src = steps[-1][2]
                    same_sec = sts[-1][1] // 1000 == sts[src][0] // 1000  # ctime of the new state vs the validator's second
                    shape += "/same-second-as-validator" if same_sec else "/later-second"
            res.violation(f"C14/{klass.split(':')[0]}/{shape}", wit,
                          f"{klass} {detail}; concrete (real files, os.utime): {cp}", (cp is not None) or twin)
            return
        res.kind(outcome or "200")
        if cp is not None:
            res["harness_errors"].append(f"symbolic history holds but the concrete one fails: {wit}: {cp}")
        res["validated"] += 1
        res.sample(wit, limit=1)

    with shims:
        eng.explore(fn, on_path)
    res.absorb_engine(eng)
    return res


def concrete_history(w) -> Optional[str]:
    """the same history on a real file: contents written, (mtime, ctime) emulated through a stat wrapper over real os.stat"""
    import os
    import tempfile
    iface, app_kind = w["iface"], w["app"]
    mod = WS if iface == "wsgi" else AS
    with tempfile.TemporaryDirectory() as d:
        p = os.path.join(d, "f.txt")
        real_stat = os.stat
        cur_state = {}

        class St:
            def __init__(self, base, m, c, size):
                self.st_mode, self.st_mtime, self.st_ctime, self.st_size = base.st_mode, m / 1000.0, c / 1000.0, size

        def fake_stat(path, *a, **k):
            base = real_stat(path, *a, **k)
            if os.path.abspath(path) == p:
                return St(base, *cur_state["s"])
            return base
        app = (mod.Files if app_kind == "files" else mod.Pages)(d, **(w.get("app_kw") or {}))
        import time as _t
        off = w.get("process_utc_offset", 0)
        old_tz = os.environ.get("TZ")
        os.environ["TZ"] = "VRF%s%d:%02d" % ("-" if off >= 0 else "+", abs(off) // 3600, abs(off) % 3600 // 60)  # POSIX sign is inverted
        _t.tzset()
        orig = SF.os
        SF.os = type("O", (), {"stat": staticmethod(fake_stat), "__getattr__": lambda s, k: getattr(os, k), "path": os.path})()

        def do(headers):
            if iface == "wsgi":
                env = {"REQUEST_METHOD": "HEAD", "PATH_INFO": "/f.txt", "SCRIPT_NAME": ""}
                for k, v in headers.items():
                    env["HTTP_" + k.upper().replace("-", "_")] = v
                calls = []
                b"".join(app(env, lambda s, h, e=None: calls.append((s, h))))
                return int(calls[0][0].split()[0]), {k.lower(): v for k, v in calls[0][1]}
            import asyncio
            sent = []

            async def send(m):
                sent.append(m)

            async def receive():
                return {"type": "http.disconnect"}
            asyncio.run(app({"type": "http", "method": "HEAD", "path": "/f.txt", "root_path": "",
                             "headers": [(k.lower().encode(), v.encode()) for k, v in headers.items()]}, receive, send))
            return sent[0]["status"], {k.decode().lower(): v.decode() for k, v in sent[0].get("headers", [])}
        try:
            outs = []
            st = w["states"]
            size = min(st[0][2], 4096)
            with open(p, "wb") as f:
                f.write(b"x" * size)
            cur_state["s"] = (st[0][0], st[0][1], st[0][2])
            outs.append(do({}))
            for i, (op, form, src) in enumerate(w["steps"]):
                cur_state["s"] = tuple(st[i + 1])
                hv = validators(form, outs[src][1]) if outs[src][0] == 200 else {}
                status, hdrs = do(hv)
                outs.append((status, hdrs))
                if outs[src][0] != 200:
                    continue
                m_src, c_src, s_src = st[src]
                m_now, c_now, s_now = st[i + 1]
                changed = s_now != s_src or m_now - m_src >= 1000 or (op == "replace-keeping-older-mtime" and m_now != m_src)
                same = (m_now, c_now, s_now) == (m_src, c_src, s_src)
                if status == 304 and changed and form != "star":
                    return f"stale 304 at step {i + 1} (form {form}): file state {st[src]} -> {st[i + 1]}"
                if status == 200 and same and form != "last-modified":
                    return f"unchanged file not revalidated at step {i + 1} (form {form}, sent {hv})"
                if status == 200 and hdrs.get("etag") == outs[src][1]["etag"] and (s_now != s_src or m_now != m_src):
                    return "validators not renewed"
            return None
        except Exception as ex:  # noqa: BLE001
            return f"exception {type(ex).__name__}: {ex}"
        finally:
            SF.os = orig
            if old_tz is None:
                os.environ.pop("TZ", None)
            else:
                os.environ["TZ"] = old_tz
            _t.tzset()


def jobs(tier: str):
    out = []
    for iface in ("wsgi", "asgi"):
        for app in ("files", "pages"):
            for init in ("fresh", "preserved-mtime"):
                for op in OPS:
                    for form in FORMS:
                        if app == "pages" and form not in ("etag", "both", "list-weak-last"):
                            continue
                        if init == "preserved-mtime" and form not in ("etag", "last-modified", "both"):
                            continue
                        out.append(dict(name=f"{iface}/{app}/{init}/{op}/{form}", iface=iface, app=app, init=init, steps=[(op, form, 0)]))
    # two modifications: validators of either earlier response
    for iface in ("wsgi", "asgi"):
        for op1, op2 in itertools.product(OPS, repeat=2):
            for form in ("etag", "last-modified", "both", "list-weak-last"):
                for src in (0, 1):
                    out.append(dict(name=f"{iface}/files/fresh/{op1}+{op2}/{form}/from{src}", iface=iface, app="files", init="fresh",
                                    steps=[(op1, "etag", 0), (op2, form, src)], weight=5))
    if tier == "thorough":
        # three modifications (validators of any earlier response), and two on a file whose mtime was preserved by a copy
        for iface in ("wsgi", "asgi"):
            for op1, op2, op3 in itertools.product(OPS[1:], repeat=3):
                for form in ("etag", "last-modified", "both"):
                    for src in (0, 1, 2):
                        out.append(dict(name=f"{iface}/files/fresh/{op1}+{op2}+{op3}/{form}/from{src}", iface=iface, app="files", init="fresh",
                                        steps=[(op1, "etag", 0), (op2, "both", 1), (op3, form, src)], weight=8))
            for op1, op2 in itertools.product(OPS, repeat=2):
                for form in ("etag", "last-modified", "both"):
                    out.append(dict(name=f"{iface}/pages/preserved-mtime/{op1}+{op2}/{form}/from1", iface=iface, app="pages", init="preserved-mtime",
                                    steps=[(op1, "etag", 0), (op2, form, 1)], weight=5))
    # non-default cache policy arguments: revalidation works the same (a "no-cache" copy is exactly the one that gets revalidated)
    for iface in ("wsgi", "asgi"):
        for tag, kw in (("no-cache", {"cacheability": "no-cache"}), ("no-store-max-age-0", {"cacheability": "no-store", "max_age": 0}), ("private", {"cacheability": "private", "max_age": 1})):
            for op in OPS:
                for form in ("etag", "last-modified", "both", "list-weak-last"):
                    out.append(dict(name=f"{iface}/files/fresh/{op}/{form}/policy:{tag}", iface=iface, app="files", init="fresh", steps=[(op, form, 0)], app_kw=kw))
    out.append(dict(name="twin", iface="wsgi", app="files", init="fresh", steps=[("none", "etag", 0)], twin=True))
    return out


def run_job(job):
    return job_history(job)


def replay(rec) -> int:
    cp = concrete_history(rec["witness"])
    print(f"replay C14: {rec['witness']} -> {cp}")
    return 1 if cp else 0
