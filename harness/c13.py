"""C13 -- response headers cannot be split or smuggled.

Real code run: MutableHeaders.__setitem__/append (+ MutableMapping.update/setdefault built on them),
Headers.__init__/__getitem__, Cookie._quote/__str__ with the live _cookie_translator table and the live
legal-key regex, BaseResponse.set_cookie/list_headers, iri_to_uri, wsgi/asgi RedirectResponse.__init__.

Symbolic: every character of header names/values, cookie names/values and the redirect target (full
Unicode); string lengths and the operation kind are enumerated.
  headers  ONE INDUCTIVE STEP from an arbitrary clean mapping (0..1 symbolic entries) x one mutating
           operation: dirty input (CR/LF/NUL in name or value) => ValueError and mapping unchanged;
           clean input => stored; the emitted header list stays clean.
  cookie   the Set-Cookie line of a cookie with symbolic name/value has no CR/LF/NUL, exactly the
           attribute separators of its own attributes (no injected ';' / ','), solver-decided per character.
  redirect the Location value is pure visible ASCII.
"""
from __future__ import annotations

import re as _re
from typing import Any, Dict, List, Optional

import z3

import baize.asgi.responses as AR
import baize.datastructures as DS
import baize.responses as R
import baize.wsgi.responses as WR
from baize.datastructures import Cookie, MutableHeaders

from engine import report
from engine.forksym import Engine, Pruned, SInt, Unsupported, conc, cur, term_of
from engine.reshim import ReShim, SPattern
from engine.shims import Shims
from engine.symseq import SSeq, SStr, _items_of, in_range, in_set

PID = "C13"
OPS = ["setitem", "append", "update_pairs", "update_mapping", "setdefault", "update_headers_object", "update_mutable_headers_object"]

META = {
    "functions": lambda: [MutableHeaders.__setitem__, MutableHeaders.append, MutableHeaders.__delitem__, DS.Headers.__init__, DS.Headers.__getitem__,
                          Cookie._quote, Cookie.__str__, R.BaseResponse.set_cookie, R.BaseResponse.list_headers, R.iri_to_uri,
                          WR.RedirectResponse.__init__, AR.RedirectResponse.__init__],
    "engines": ["E-FS (forksym): symbolic characters through the real header mapping / cookie escaper; live translation table as ITE terms"],
    "stubs": ["baize.datastructures._cookie_is_legal_key -> the same bound method (fullmatch/match/...) of the same pattern text re-compiled through ReShim",
              "baize.responses.quote -> percent-encoding model over symbolic characters taking the REAL `safe` argument baize passes "
              "(ASCII exact; every other char becomes 1-4 '%XX' groups whose hex digits are stand-ins); the real quote runs in every path's concrete replay",
              "header-mapping keys are proxies with a constant hash (dict compares them through the solver)"],
    "assumptions": ["headers family: the pre-state mapping is clean (it was built through the checked mutators: that is the induction hypothesis)",
                    "constructor arguments (headers=...) are outside the property, which speaks of the mutating operations"],
    "bounds": {"quick": {"header_name_len_max": 2, "header_value_len_max": 2, "cookie_name_len_max": 2, "cookie_value_len_max": 3, "redirect_symbolic_chars": 2},
               "thorough": {"header_name_len_max": 3, "header_value_len_max": 3, "cookie_name_len_max": 3, "cookie_value_len_max": 4, "redirect_symbolic_chars": 3}},
    "outside": ["longer strings", "headers passed to response constructors", "cookie attributes path/domain (not named by the property)"],
    "expect_kinds": {"all": ["rejected", "stored", "cookie-clean", "redirect-clean"]},
}

BAD = (0, 10, 13)


class Fail(Exception):
    def __init__(self, klass, detail=""):
        self.klass, self.detail = klass, detail


def dirty_term(s) -> Any:
    its = _items_of(s)
    return z3.Or([z3.Or([term_of(c) == b for b in BAD]) for c in its] + [z3.BoolVal(False)])


def any_bad(e: Engine, its: List[Any]) -> bool:
    ts = [z3.Or([term_of(c) == b for b in BAD]) for c in its if isinstance(c, SInt)]
    if any((not isinstance(c, SInt)) and c in BAD for c in its):
        return True
    return bool(ts) and e.check(z3.Or(ts))


def items_of_text(x) -> List[Any]:
    """real str possibly holding char placeholders / SStr -> items"""
    if isinstance(x, SStr):
        return list(x.items)
    e = cur()
    return [SInt(e.chars[c]) if c in e.chars else ord(c) for c in x]


# ------------------------------------------------------------------ headers: one inductive step
def snapshot(h: MutableHeaders):
    return [(k, h._dict[k]) for k in h._dict]


def same_items(e: Engine, a, b) -> bool:
    a, b = _items_of(a), _items_of(b)
    if len(a) != len(b):
        return False
    diffs = [term_of(x) != term_of(y) for x, y in zip(a, b) if not z3.eq(term_of(x), term_of(y))]
    return not (diffs and e.check(z3.Or(diffs)))


def job_headers(job) -> report.JobResult:
    res = report.JobResult.new(job["name"])
    twin = job.get("twin", False)
    op, lk, lv, pre = job["op"], job["lk"], job["lv"], job["pre"]
    eng = Engine(budget_s=900)
    eng.sensitive_chars = BAD  # append() re-checks the f-string-joined value for CR/LF/NUL: those must stay real characters
    SSeq.NORMALIZE = False
    SSeq.CONST_HASH = True
    hi = 0x10FFFF
    k = SStr.fresh(lk, "k", 0, hi, eng.solver)
    v = SStr.fresh(lv, "v", 0, hi, eng.solver)
    pk = SStr.fresh(1, "pk", 0, hi, eng.solver) if pre else None
    pv = SStr.fresh(1, "pv", 0, hi, eng.solver) if pre else None
    if pre:
        for c in pk.items + pv.items:
            eng.solver.add(*[c.e != b for b in BAD])  # induction hypothesis: the pre-state is clean
        for c in pk.items:
            eng.solver.add(z3.Or(c.e < 65, c.e > 90), c.e <= 0xFF, z3.Or(c.e < 192, c.e > 222, c.e == 215))  # stored keys are lower-case already (A-Z and the Latin-1 capitals)
    for c in k.items:
        eng.solver.add(c.e <= 0xFF)  # key case-folding is modelled exactly on Latin-1
    if job.get("prefix"):
        v = job["prefix"] + v  # a long stored text around the symbolic characters (nothing may fold or wrap it into several lines)
    resp: List[Any] = [None]

    def build():
        resp[0] = WR.Response()
        h = resp[0].headers
        if pre:
            h._dict[pk] = pv
        return h

    def emitted():
        # what the response hands to the server, in both forms (text for WSGI, bytes for ASGI; text that ISO-8859-1 cannot carry may fail there)
        out_ = list(resp[0].list_headers(as_bytes=False))
        try:
            out_ += list(resp[0].list_headers(as_bytes=True))
        except UnicodeEncodeError:
            pass
        return out_

    def fn():
        h = build()
        before = snapshot(h)
        raised = None
        try:
            if op == "setitem":
                h[k] = v
            elif op == "append":
                h.append(k, v)
            elif op == "update_pairs":
                h.update([(k, v)])
            elif op == "update_mapping":
                h.update({k: v})
            elif op == "setdefault":
                h.setdefault(k, v)
            elif op == "setitem_existing_case":
                h[k.upper() if lk else k] = v
            elif op == "update_headers_object":  # copying another (never validated) header mapping onto the response
                h.update(DS.Headers({k: v}))
            elif op == "update_mutable_headers_object":
                h.update(MutableHeaders({k: v}))
        except ValueError as ex:
            raised = ex
        return h, before, raised, (emitted() if raised is None else [])

    def on_path(e, r):
        kind, val = r
        klass = detail = None
        outcome = None
        try:
            if kind == "exc":
                raise Fail(f"exception:{type(val).__name__}", repr(val))
            if twin:
                raise Fail("twin-assert-false")
            h, before, raised, lines = val
            dirty = z3.Or(dirty_term(k), dirty_term(v))
            after = snapshot(h)
            if raised is not None:
                if e.check(z3.Not(dirty)):
                    raise Fail("clean-input-rejected")
                if len(after) != len(before) or any(not (same_items(e, a[0], b[0]) and same_items(e, a[1], b[1])) for a, b in zip(after, before)):
                    raise Fail("mapping-changed-although-rejected")
                outcome = "rejected"
            else:
                # a setdefault on an existing key stores nothing: dirty default is then harmless and legal
                stored_something = not (len(after) == len(before) and all(same_items(e, a[1], b[1]) for a, b in zip(after, before)))
                if stored_something and e.check(dirty):
                    raise Fail("dirty-input-stored", "CR/LF/NUL accepted by " + op)
                for kk, vv in list(after) + list(lines):
                    if any_bad(e, _items_of(kk)) or any_bad(e, _items_of(vv)):
                        raise Fail("header-line-with-control-character")
                outcome = "stored"
        except Fail as f:
            klass, detail = f.klass, f.detail
        e.last_sat = e.last_sat if klass in ("clean-input-rejected", "dirty-input-stored", "header-line-with-control-character") else False
        m = e.witness()
        wit = {"op": op, "key": conc(k, m), "value": conc(v, m), "pre": ([conc(pk, m), conc(pv, m)] if pre else None)}
        cp = concrete_headers(wit)
        if klass is not None:
            res.violation(f"C13/headers/{op}/{klass.split(':')[0]}", wit, f"{klass} {detail}; concrete: {cp}", (cp is not None) or twin)
            return
        res.kind(outcome)
        if cp is not None:
            res["harness_errors"].append(f"symbolic step holds but concrete run fails: {wit!r}: {cp}")
        res["validated"] += 1
        res.sample({k_: repr(v_) for k_, v_ in wit.items()}, limit=1)

    try:
        eng.explore(fn, on_path)
    finally:
        SSeq.NORMALIZE = True
        SSeq.CONST_HASH = False
    res.absorb_engine(eng)
    return res


def concrete_headers(w) -> Optional[str]:
    """through the public API on real strings, incl. the final header list of a real response"""
    from baize.wsgi.responses import Response
    nrm, ch = SSeq.NORMALIZE, SSeq.CONST_HASH
    SSeq.NORMALIZE, SSeq.CONST_HASH = True, False
    prev = Engine.cur
    Engine.cur = None
    try:
        r = Response()
        h = r.headers
        if w["pre"]:
            h[w["pre"][0]] = w["pre"][1]
        before = dict(h._dict)
        k, v, op = w["key"], w["value"], w["op"]
        dirty = any(c in (k + v) for c in "\r\n\0")
        try:
            if op == "setitem":
                h[k] = v
            elif op == "append":
                h.append(k, v)
            elif op == "update_pairs":
                h.update([(k, v)])
            elif op == "update_mapping":
                h.update({k: v})
            elif op == "setdefault":
                h.setdefault(k, v)
            elif op == "setitem_existing_case":
                h[k.upper()] = v
            elif op == "update_headers_object":
                h.update(DS.Headers({k: v}))
            elif op == "update_mutable_headers_object":
                h.update(MutableHeaders({k: v}))
        except ValueError:
            if not dirty:
                return "clean input rejected"
            if dict(h._dict) != before:
                return "mapping changed although rejected"
            return None
        except Exception as ex:  # noqa: BLE001
            return f"exception {type(ex).__name__}: {ex}"
        if dirty and dict(h._dict) != before:
            return "dirty input stored"
        for kk, vv in r.list_headers(as_bytes=False):
            if any(c in kk + vv for c in "\r\n\0"):
                return f"emitted header line with control character: {kk!r}: {vv!r}"
        try:
            for kb, vb in r.list_headers(as_bytes=True):
                if any(c in kb + vb for c in b"\r\n\0"):
                    return f"emitted header line with control character: {kb!r}: {vb!r}"
        except UnicodeEncodeError:
            pass
        return None
    finally:
        Engine.cur = prev
        SSeq.NORMALIZE, SSeq.CONST_HASH = nrm, ch


# ------------------------------------------------------------------ cookies
def legal_key_shim():
    live = DS._cookie_is_legal_key
    pat = live.__self__
    return getattr(ReShim.compile(pat.pattern, pat.flags & ~_re.UNICODE), live.__name__)


def job_cookie(job) -> report.JobResult:
    res = report.JobResult.new(job["name"])
    twin = job.get("twin", False)
    ln, lv = job["ln"], job["lv"]
    hi = job.get("hi", 0x10FFFF)
    eng = Engine(budget_s=1500)
    name = SStr.fresh(ln, "n", 0, hi, eng.solver)
    value = SStr.fresh(lv, "v", 0, hi, eng.solver)
    for c in name.items + value.items:
        eng.solver.add(c.e < 0xF0000)
    sym_items = name.items + value.items
    if job.get("prefix"):
        # a long serialized list in front of the symbolic characters (escaping must not run out after some number of characters)
        if job.get("prefix_on", "value") == "value":
            value = job["prefix"] + value
        else:
            name = job["prefix"] + name
    shims = Shims().add(DS, _cookie_is_legal_key=legal_key_shim(), re=ReShim).add_compiled_regexes(DS)
    attrs = job.get("attrs", {})

    def fn():
        r = WR.Response() if job.get("iface", "wsgi") == "wsgi" else AR.Response()
        if job.get("delete"):
            r.delete_cookie(name)  # deleting is setting an expired cookie of that NAME: the name is escaped like any other
        elif job.get("reassign"):
            # the cookie is queued with plain token text first; name / value are public attributes and are re-assigned before sending
            r.set_cookie("sid", "abc", **attrs)
            r.cookies[-1].name = name
            r.cookies[-1].value = value
        else:
            r.set_cookie(name, value, **attrs)
        hdrs = r.list_headers(as_bytes=False)
        line = [v for k, v in hdrs if k == "set-cookie"]
        if len(line) != 1:
            raise Fail("set-cookie-count", str(len(line)))
        return line[0], items_of_text(line[0])

    def on_path(e, r):
        kind, val = r
        klass = detail = None
        try:
            if kind == "exc":
                if isinstance(val, Fail):
                    raise val
                raise Fail(f"exception:{type(val).__name__}", repr(val))
            if twin:
                raise Fail("twin-assert-false")
            text, its = val
            if any_bad(e, its):
                raise Fail("control-character-in-set-cookie")
            # attribute structure: the name=value pair may not contribute any ';' or ',' separator
            exp_semis, exp_commas = str(Cookie("x", "y", path="/", **job.get("cookie_kw", {}))).count(";"), 0
            if job.get("delete"):  # an expired cookie carries expires=<date with one comma>; max-age=0
                exp_semis, exp_commas = 4, 1
            sym_sep = [z3.Or(term_of(c) == 59, term_of(c) == 44) for c in its if isinstance(c, SInt)]
            if sym_sep and e.check(z3.Or(sym_sep)):
                raise Fail("separator-injected-by-name-or-value", "a symbolic character can be ';' or ',' in the emitted line")
            conc_semis = sum(1 for c in its if not isinstance(c, SInt) and c == 59)
            conc_commas = sum(1 for c in its if not isinstance(c, SInt) and c == 44)
            if conc_semis != exp_semis or conc_commas != exp_commas:
                raise Fail("attribute-count-changed", f"{conc_semis} ';' (expected {exp_semis}), {conc_commas} ','")
            if any(isinstance(c, SInt) and e.check(z3.Or(term_of(c) < 32, term_of(c) == 127)) for c in its):
                raise Fail("raw-control-character-in-set-cookie")
        except Fail as f:
            klass, detail = f.klass, f.detail
        if klass in (None, "twin-assert-false", "attribute-count-changed", "set-cookie-count") or (klass or "").startswith("exception"):
            e.last_sat = False
        if (klass or "").startswith("exception"):
            # the path broke before a line was emitted: ask for the instance of it with a CR/LF/NUL/';' among the symbolic characters,
            # the one the concrete run below is most likely to show something on
            e.check(z3.Or([z3.Or(c.e == 13, c.e == 10, c.e == 0, c.e == 59) for c in sym_items] or [z3.BoolVal(False)]))
        m = e.witness()
        wit = {"name": conc(name, m), "value": conc(value, m), "kw": job.get("cookie_kw", {}), "reassign": bool(job.get("reassign")), "delete": bool(job.get("delete"))}
        with shims.off():
            cp = concrete_cookie(wit)
        if klass is not None:
            res.violation(f"C13/cookie/{klass.split(':')[0]}", wit, f"{klass} {detail}; concrete: {cp}", (cp is not None) or twin)
            return
        res.kind("cookie-clean")
        if cp is not None:
            res["harness_errors"].append(f"symbolic path holds but concrete run fails: {wit!r}: {cp}")
        res["validated"] += 1
        res.sample({k_: repr(v_) for k_, v_ in wit.items()}, limit=1)

    with shims:
        eng.explore(fn, on_path)
    res.absorb_engine(eng)
    return res


def concrete_cookie(w) -> Optional[str]:
    r = WR.Response()
    try:
        if w.get("delete"):
            r.delete_cookie(w["name"])
        elif w.get("reassign"):
            r.set_cookie("sid", "abc", **w.get("kw", {}))
            r.cookies[-1].name, r.cookies[-1].value = w["name"], w["value"]
        else:
            r.set_cookie(w["name"], w["value"], **w.get("kw", {}))
        line = [v for k, v in r.list_headers(as_bytes=False) if k == "set-cookie"][0]
    except Exception as ex:  # noqa: BLE001
        return f"exception {type(ex).__name__}: {ex}"
    if any(c in line for c in "\r\n\0"):
        return f"CR/LF/NUL in {line!r}"
    if any(ord(c) < 32 or ord(c) == 127 for c in line):
        return f"raw control character in {line!r}"
    r2 = WR.Response()
    if w.get("delete"):
        r2.delete_cookie("x")
    else:
        r2.set_cookie("x", "y", **w.get("kw", {}))
    base = [v for k, v in r2.list_headers(as_bytes=False) if k == "set-cookie"][0]
    if w.get("delete"):
        if line.count(";") != base.count(";") or line.count(",") != base.count(","):
            return f"separator count differs: {line!r} vs {base!r}"
        return None
    if line.count(";") != base.count(";") or "," in line.replace(base.split(";", 1)[1] if ";" in base else "", ""):
        return f"separator count differs: {line!r} vs {base!r}"
    return None


# ------------------------------------------------------------------ redirect
def quote_model(string, safe="/", encoding=None, errors=None):
    """urllib.parse.quote over proxies: ASCII exact, non-ASCII -> '%XX' groups (digits symbolic-free: fresh hex items)."""
    if not isinstance(string, SStr):
        from urllib.parse import quote
        return quote(string, safe, encoding, errors)
    always = "ABCDEFGHIJKLMNOPQRSTUVWXYZabcdefghijklmnopqrstuvwxyz0123456789_.-~"
    ok = [ord(c) for c in always + safe if ord(c) < 128]
    out: List[Any] = []
    e = cur()
    for c in string.items:
        if not isinstance(c, SInt):
            from urllib.parse import quote
            out.extend(ord(x) for x in quote(chr(c), safe))
            continue
        if in_set(c, ok):
            out.append(c)
            continue
        if in_range(c, 0xD800, 0xDFFF):
            raise UnicodeEncodeError("utf-8", "\ud800", 0, 1, "surrogates not allowed")
        nbytes = 1 if in_range(c, 0, 0x7F) else 2 if in_range(c, 0x80, 0x7FF) else 3 if in_range(c, 0x800, 0xFFFF) else 4
        # each UTF-8 byte becomes '%' + two upper-case hex digits; the digits are written as the stand-in 'X' (class-correct:
        # visible ASCII; their exact value is not modelled and no check here depends on it)
        for _ in range(nbytes):
            out.extend((37, 88, 88))
    return SStr(out)


class _OpaqueSplit:
    """stands for urlsplit(<symbolic text>): RedirectResponse only needs str(url); any other use is reported, not guessed"""

    def __getattr__(self, name):
        raise cur()._raise(Unsupported(f"URL component {name!r} of a symbolic redirect target"))


def _urlsplit_stub(url, *a, **kw):
    if isinstance(url, SStr):
        return _OpaqueSplit()
    from urllib.parse import urlsplit
    return urlsplit(url, *a, **kw)


def job_redirect(job) -> report.JobResult:
    res = report.JobResult.new(job["name"])
    twin = job.get("twin", False)
    n = job["n"]
    iface = job["iface"]
    tmpl = job["template"]  # text with '*' marking symbolic positions
    eng = Engine(budget_s=900)
    cs = SStr.fresh(n, "u", 0, 0x10FFFF, eng.solver)
    it = iter(cs.items)
    url = SStr([next(it) if ch == "*" else ord(ch) for ch in tmpl])
    from engine.shims import str_shim
    shims = Shims().add(R, quote=quote_model).add(DS, urlsplit=_urlsplit_stub).add(WR, str=str_shim).add(AR, str=str_shim)
    SSeq.NORMALIZE = False
    as_url = job.get("as_url", False)  # the target is handed over as a baize URL object instead of a str

    def fn():
        Resp = WR.RedirectResponse if iface == "wsgi" else AR.RedirectResponse
        r = Resp(DS.URL(url) if as_url else url)
        loc = [v for k, v in r.list_headers(as_bytes=False) if k == "location"]
        if len(loc) != 1:
            raise Fail("location-count")
        return loc[0]

    def on_path(e, r):
        kind, val = r
        klass = detail = None
        try:
            if kind == "exc":
                if isinstance(val, UnicodeEncodeError):
                    res.kind("redirect-clean")  # lone surrogate: not text a URL can carry; rejected before any header exists
                    return
                if isinstance(val, Fail):
                    raise val
                raise Fail(f"exception:{type(val).__name__}", repr(val))
            if twin:
                raise Fail("twin-assert-false")
            its = _items_of(val)
            bad = [z3.Or(term_of(c) < 33, term_of(c) > 126) for c in its if isinstance(c, SInt)]
            if any((not isinstance(c, SInt)) and not (33 <= c <= 126) for c in its):
                raise Fail("location-not-visible-ascii")
            if bad and e.check(z3.Or(bad)):
                raise Fail("location-not-visible-ascii")
        except Fail as f:
            klass, detail = f.klass, f.detail
        if klass != "location-not-visible-ascii":
            e.last_sat = False
        m = e.witness()
        wit = {"iface": iface, "url": conc(url, m), "as_url": as_url}
        with shims.off():
            cp = concrete_redirect(wit)
        if klass is not None:
            res.violation(f"C13/redirect/{klass.split(':')[0]}", wit, f"{klass} {detail}; concrete: {cp}", (cp is not None) or twin)
            return
        res.kind("redirect-clean")
        if cp is not None:
            res["harness_errors"].append(f"symbolic path holds but concrete run fails: {wit!r}: {cp}")
        res["validated"] += 1
        res.sample({"url": repr(wit["url"])}, limit=1)

    try:
        with shims:
            eng.explore(fn, on_path)
    finally:
        SSeq.NORMALIZE = True
    res.absorb_engine(eng)
    return res


def concrete_redirect(w) -> Optional[str]:
    nrm = SSeq.NORMALIZE
    SSeq.NORMALIZE = True
    try:
        Resp = WR.RedirectResponse if w["iface"] == "wsgi" else AR.RedirectResponse
        try:
            r = Resp(DS.URL(w["url"]) if w.get("as_url") else w["url"])
        except UnicodeEncodeError:
            return None
        except Exception as ex:  # noqa: BLE001
            return f"exception {type(ex).__name__}: {ex}"
        loc = [v for k, v in r.list_headers(as_bytes=False) if k == "location"][0]
        if any(not (33 <= ord(c) <= 126) for c in loc):
            return f"location {loc!r} is not visible ASCII"
        return None
    finally:
        SSeq.NORMALIZE = nrm


def jobs(tier: str):
    b = META["bounds"][tier]
    out = []
    for op in OPS:
        for pre in (0, 1):
            for lk in range(0, b["header_name_len_max"] + 1):
                for lv in range(0, b["header_value_len_max"] + 1):
                    out.append(dict(name=f"headers/{op}/pre{pre}/k{lk}v{lv}", kind="headers", op=op, pre=pre, lk=lk, lv=lv, weight=3 ** (lk + lv)))
    for op in ("setitem", "append", "update_mapping", "setdefault"):
        out.append(dict(name=f"headers/{op}/long-text-beyond-latin1/v2", kind="headers", op=op, pre=0, lk=1, lv=2, prefix="\u6ce8\u610f\uff1a" + "\u65e5\u672c\u8a9e" * 12 + " plain words here ", weight=9))
    out.append(dict(name="headers/setitem/long-latin1-text/v2", kind="headers", op="setitem", pre=0, lk=1, lv=2, prefix="caf\xe9 " * 40, weight=9))
    out.append(dict(name="twin/headers", kind="headers", op="setitem", pre=0, lk=1, lv=1, twin=True))
    for ln in range(0, b["cookie_name_len_max"] + 1):
        for lv in range(0, b["cookie_value_len_max"] + 1):
            out.append(dict(name=f"cookie/n{ln}v{lv}", kind="cookie", ln=ln, lv=lv, weight=5 ** (ln + lv)))
    out.append(dict(name="cookie/asgi/n1v2", kind="cookie", ln=1, lv=2, iface="asgi"))
    for ln in (1, 2, 3):
        out.append(dict(name=f"cookie/deleted/n{ln}", kind="cookie", ln=ln, lv=0, delete=True, weight=5 ** ln))
    for ln, lv in ((0, 2), (1, 1), (1, 2), (2, 1)):
        out.append(dict(name=f"cookie/reassigned/n{ln}v{lv}", kind="cookie", ln=ln, lv=lv, reassign=True, weight=5 ** (ln + lv)))
    for n_unsafe in (16, 17, 40):
        out.append(dict(name=f"cookie/after-{n_unsafe}-escaped-characters/v2", kind="cookie", ln=1, lv=2, prefix="k=v;" * n_unsafe, weight=30))
    out.append(dict(name="cookie/after-17-escaped-characters/n2", kind="cookie", ln=2, lv=1, prefix="a,b;" * 9, prefix_on="name", weight=30))
    out.append(dict(name="cookie/attrs/n1v1", kind="cookie", ln=1, lv=1, attrs={"max_age": 10, "secure": True, "httponly": True, "domain": "e.org"},
                    cookie_kw={"max_age": 10, "secure": True, "httponly": True, "domain": "e.org"}))
    out.append(dict(name="twin/cookie", kind="cookie", ln=1, lv=1, twin=True))
    templates = {1: ["*", "/a*b", "http://h/*"], 2: ["**", "/*?x=*", "h*p://x/*"], 3: ["***", "/*/*#*"]}
    for n in range(1, b["redirect_symbolic_chars"] + 1):
        for t in templates[n]:
            for iface in ("wsgi", "asgi"):
                out.append(dict(name=f"redirect/{iface}/{t}", kind="redirect", iface=iface, n=n, template=t, weight=8 ** n))
                if t in ("*", "/a*b", "/*?x=*"):
                    out.append(dict(name=f"redirect-url-object/{iface}/{t}", kind="redirect", iface=iface, n=n, template=t, as_url=True, weight=8 ** n))
    out.append(dict(name="twin/redirect", kind="redirect", iface="wsgi", n=1, template="*", twin=True))
    return out


def run_job(job):
    return {"headers": job_headers, "cookie": job_cookie, "redirect": job_redirect}[job["kind"]](job)


def replay(rec) -> int:
    w = rec["witness"]
    if "op" in w:
        cp = concrete_headers(w)
    elif "url" in w:
        cp = concrete_redirect(w)
    else:
        cp = concrete_cookie(w)
    print(f"replay C13: {w!r} -> {cp}")
    return 1 if cp else 0
