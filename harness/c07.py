"""C07 -- static-file apps serve exactly the files inside their directory, nothing else.

Real code run: BaseFiles.__init__/normalize_dir_path/ensure_absolute_path/check_path_is_file, Files.__call__ /
file_response and Pages.__call__ / ensure_absolute_path on both interfaces.

Symbolic: every character of the request path (full Unicode incl. NUL, '/', '.'), up to the length bound,
alone and in front of / behind fixed fragments ('/../', 'index.html', '.html').  The lexical kernel
(os.path.join/abspath/normpath/relpath) runs on proxies through a vendored pure-Python posixpath; os.stat is a
fixed virtual tree with files, directories, a '..name' file, an index-less directory and sibling / parent
secrets (incl. a sibling whose name extends the directory's name and '<dir>.html').
Oracle: an independent segment-stack resolver run symbolically on the same path.
"""
from __future__ import annotations

import os as _os
import stat as _stat
from typing import Any, Dict, List, Optional

import z3

import baize.asgi.staticfiles as AS
import baize.staticfiles as SF
import baize.wsgi.staticfiles as WS
from baize.exceptions import HTTPException

from engine import report
from engine.forksym import Engine, Pruned, SInt, Unsupported, conc, cur, term_of
from engine.shims import Shims
from engine.symseq import SSeq, SStr, _items_of, in_set
from engine.vloop import drive

from . import sympath

PID = "C07"
DIR = "/srv/www"
TREE: Dict[str, str] = {
    "/": "d", "/srv": "d", "/srv/www": "d", "/srv/www/f": "f", "/srv/www/d": "d", "/srv/www/d/index.html": "f", "/srv/www/d/g": "f",
    "/srv/www/x.html": "f", "/srv/www/..n": "f", "/srv/www/index.html": "f", "/srv/www/e": "d", "/srv/www/e/h": "f",
    "/srv/wwwx": "d", "/srv/wwwx/s": "f", "/srv/s": "f", "/srv/www.html": "f", "/srv/x.html": "f",
    "/srv/www/k": "s",  # an entry that is neither a regular file nor a directory (unix socket): never served
    "/srv/www/\u00e9": "f",  # a regular file whose name is not ASCII: served at its own path on both interfaces
    "/srv/void": "d", "/srv/www/up": "l:/srv/void",  # a symbolic link inside the directory to an EMPTY directory outside it
}
sympath.SYMLINKS.update({k: v[2:] for k, v in TREE.items() if v.startswith("l:")})

META = {
    "functions": lambda: [SF.BaseFiles.__init__, SF.BaseFiles.normalize_dir_path, SF.BaseFiles.ensure_absolute_path, SF.BaseFiles.check_path_is_file,
                          WS.Files.__call__, WS.Files.file_response, WS.Pages.__call__, WS.Pages.ensure_absolute_path,
                          AS.Files.__call__, AS.Files.file_response, AS.Pages.__call__, AS.Pages.ensure_absolute_path],
    "engines": ["E-FS (forksym): symbolic request path through the real path arithmetic and dispatch"],
    "stubs": ["baize.staticfiles.os -> os.path = vendored pure-Python posixpath running on proxies (validated against the real os.path on every "
              "path's model); os.stat = virtual tree raising FileNotFoundError / NotADirectoryError / ValueError(embedded NUL) like the real call",
              "baize.{wsgi,asgi}.staticfiles.FileResponse / RedirectResponse / URL -> recorders (what would be opened / where the redirect points); "
              "the response layer itself is C02's subject"],
    "assumptions": ["directory given as an absolute path (relative / package-relative resolution happens once in the constructor, outside the request path)",
                    "no symlinks: confinement is lexical, as the property states", "the tree is a fixed recipe"],
    "bounds": {"quick": {"free_path_len_max": 5, "templates": "'/../'+<=6, <=3+'/index.html', <=4+'.html'"},
               "thorough": {"free_path_len_max": 7, "templates": "'/../'+<=7, <=4+'/index.html', <=5+'.html'"}},
    "outside": ["longer paths", "real file I/O, symlinks, permissions", "other directory trees"],
    "expect_kinds": {"all": ["served", "404", "redirect"]},
    "directory_modes": "absolute path; relative path with the working directory changed between construction and request (package-relative: not covered)",
}


class Fail(Exception):
    def __init__(self, klass, detail=""):
        self.klass, self.detail = klass, detail


class StatResult:
    st_size = 10
    st_mtime = 1700000000.0
    st_ctime = 1700000000.0

    def __init__(self, kind):
        self.st_mode = (_stat.S_IFREG | 0o644) if kind == "f" else (_stat.S_IFSOCK | 0o755) if kind == "s" else (_stat.S_IFDIR | 0o755)
        self.kind = kind


class OsShim:
    path = sympath
    sep = "/"
    name = _os.name
    PathLike = _os.PathLike
    fspath = staticmethod(_os.fspath)

    def __init__(self):
        self.stats: List[Any] = []

    def stat(self, p):
        self.stats.append(p)
        its = _items_of(p)
        if any(bool(in_set(c, (0,))) for c in its):
            raise ValueError("embedded null byte")
        seg = 0
        for c in its:
            if bool(in_set(c, (47,))):
                seg = 0
            else:
                seg += 1
                if seg > 255:
                    import errno
                    raise OSError(errno.ENAMETOOLONG, "File name too long")
        q = p
        must_dir = False
        while len(q) > 1 and q.endswith("/"):
            q = q[:-1]
            must_dir = True
        q = sympath.realpath(q) if len(q) > 1 else q  # stat() follows symbolic links in every component
        for key, kind in TREE.items():
            if q == key:
                if must_dir and kind != "d":
                    raise NotADirectoryError(20, "Not a directory")
                return StatResult(kind)
        for key, kind in TREE.items():
            if kind in ("f", "s") and q.startswith(key + "/"):
                raise NotADirectoryError(20, "Not a directory")
        raise FileNotFoundError(2, "No such file or directory")

    def __getattr__(self, k):
        return getattr(_os, k)


class RecFile:
    """stands for FileResponse: records which file would be opened"""
    opened: List[Any] = []

    def __init__(self, filepath, *a, stat_result=None, **k):
        RecFile.opened.append(filepath)
        self.filepath = filepath
        from baize.datastructures import MutableHeaders
        self.headers = MutableHeaders()

    @staticmethod
    def generate_etag(st):
        return "etag"

    def __call__(self, *a):
        if len(a) == 2:
            a[1]("200 OK", [])
            return [b""]
        return self._asgi(*a)

    async def _asgi(self, scope, receive, send):
        await send({"type": "http.response.start", "status": 200, "headers": []})
        await send({"type": "http.response.body", "body": b""})


class RecRedirect:
    targets: List[Any] = []

    def __init__(self, url, *a, **k):
        RecRedirect.targets.append(url)

    def __call__(self, *a):
        if len(a) == 2:
            a[1]("307 Temporary Redirect", [])
            return [b""]
        return self._asgi(*a)

    async def _asgi(self, scope, receive, send):
        await send({"type": "http.response.start", "status": 307, "headers": []})
        await send({"type": "http.response.body", "body": b""})


class UrlModel:
    """stands for baize.datastructures.URL inside the Pages redirect: keeps root+path, replace(path=...) records the new path"""

    def __init__(self, url="", *, scope=None, environ=None, **kw):
        if scope is not None:
            self.path = scope.get("root_path", "") + scope["path"]
        elif environ is not None:
            self.path = (environ.get("SCRIPT_NAME", "") + environ.get("PATH_INFO", "")).encode("latin1").decode("utf8", "replace")
        else:
            self.path = url

    host_kept = True

    def replace(self, **kw):
        extra = set(kw) - {"path", "scheme", "netloc"}
        if extra:
            raise cur()._raise(Unsupported(f"URL.replace({sorted(extra)}) in the Pages redirect"))
        u = UrlModel(kw.get("path", self.path))
        u.scheme = kw.get("scheme")
        u.host_kept = self.host_kept and kw.get("netloc", "keep") != ""
        if not u.host_kept:
            its = _items_of(self.path)
            if not its or not in_set(its[0], (47,)):
                # the real URL text is scheme://host + path: a path without leading '/' fuses with the host, which this stand-in
                # does not model once the authority is rewritten
                raise cur()._raise(Unsupported("authority rewritten for a request path that does not start with '/'"))
        return u


def make_shims() -> Shims:
    s = Shims()
    s.add(SF, os=OsShim())
    for mod in (WS, AS):
        s.add(mod, FileResponse=RecFile, RedirectResponse=RecRedirect, URL=UrlModel)
    return s


def _not_found_app(iface):
    """a caller-supplied handle_404 application: answers 404 itself"""
    if iface == "wsgi":
        def not_found(environ, start_response):
            start_response("404 Not Found", [])
            return [b"custom 404"]
    else:
        async def not_found(scope, receive, send):
            await send({"type": "http.response.start", "status": 404, "headers": []})
            await send({"type": "http.response.body", "body": b"custom 404"})
    return not_found


def wsgi_presentation(path):
    """PEP 3333: the server hands the request path's bytes over as a 'bytes-as-latin-1' native string.  The harness's `path` is the text the
    client means (the UTF-8 decoding of those bytes), so what a WSGI application finds in PATH_INFO is path.encode('utf-8').decode('latin-1')."""
    if isinstance(path, SSeq):
        try:
            return path.encode("utf-8").decode("latin-1")
        except UnicodeEncodeError:  # a lone surrogate is not the decoding of any request bytes
            raise cur()._raise(Pruned())
    return path.encode("utf-8", "surrogateescape").decode("latin-1")


def run_app(iface: str, app_kind: str, path, dirmode: str = "abs", mount: str = "", handle_404: bool = False):
    RecFile.opened = []
    RecRedirect.targets = []
    mod = WS if iface == "wsgi" else AS
    kw = {"handle_404": _not_found_app(iface)} if handle_404 else {}
    if dirmode == "rel":
        # directory given relative to the working directory AT CONSTRUCTION; the process then changes directory (daemonising
        # server, --chdir) before the first request: the configured directory must not move with it
        sympath.CWD = "/srv"
        app = (mod.Files if app_kind == "files" else mod.Pages)("www", **kw)
        sympath.CWD = "/srv/wwwx"
    else:
        app = (mod.Files if app_kind == "files" else mod.Pages)(DIR, **kw)
    status = None
    try:
        if iface == "wsgi":
            calls = []
            body = app({"REQUEST_METHOD": "GET", "PATH_INFO": wsgi_presentation(path), "SCRIPT_NAME": mount}, lambda s, h, e=None: calls.append(s))
            list(body)
            status = int(calls[0].split()[0])
        else:
            sent = []

            async def send(m):
                sent.append(m)

            async def receive():
                return {"type": "http.disconnect"}
            drive(app({"type": "http", "method": "GET", "path": path, "root_path": mount, "headers": []}, receive, send))
            status = sent[0]["status"]
    except HTTPException as ex:
        status = ex.status_code
    return status, list(RecFile.opened), list(RecRedirect.targets)


# ------------------------------------------------------------------ oracle: independent segment-stack resolver
def resolve(path):
    """lexical resolution of DIR + path; returns list of segments of the absolute result"""
    stack = [s for s in DIR.split("/") if s]
    for seg in path.split("/"):
        if seg == "" or seg == ".":
            continue
        if seg == "..":
            if stack:
                stack.pop()
        else:
            stack.append(seg)
    return stack


def lookup(stack) -> Optional[str]:
    """kind of the tree entry the segment list names ('f'/'d'/None); forks on symbolic segments"""
    for key, kind in TREE.items():
        ks = [s for s in key.split("/") if s]
        if len(ks) == len(stack) and all(a == b for a, b in zip(stack, ks)):
            if kind.startswith("l:"):  # the entry is whatever the link points to
                return kind[2:], TREE[kind[2:]]
            return key, kind
    return None, None


def expected(app_kind: str, path):
    """('serve', abs) | ('redirect', None) | ('404', None) per the statement"""
    stack = resolve(path)
    dsegs = [s for s in DIR.split("/") if s]
    inside = len(stack) >= len(dsegs) and all(a == b for a, b in zip(stack, dsegs))
    if not inside:
        return ("404", None)
    key, kind = lookup(stack)
    trailing = len(path) > 0 and path.endswith("/")
    if app_kind == "files":
        if kind == "f":
            # '<file>/' is not the file's own path; lexically it still resolves to the file: the statement allows both answers
            return ("serve-or-404", key) if trailing else ("serve", key)
        return ("404", None)
    # pages
    if trailing:
        if kind == "d":
            k2, kind2 = lookup(stack + ["index.html"])
            return ("serve", k2) if kind2 == "f" else ("404", None)
        return ("serve-or-404", key) if kind == "f" else ("404", None)
    if kind == "f":
        return ("serve", key)
    if kind == "d":
        return ("redirect", None)
    # non-existent: '<path>.html' fallback (only below the directory itself)
    if len(stack) > len(dsegs):
        last = stack[-1]
        if not last.endswith(".html"):
            k2, kind2 = lookup(stack[:-1] + [last + ".html"])
            if kind2 == "f":
                return ("serve", k2)
    return ("404", None)


def job_path(job) -> report.JobResult:
    res = report.JobResult.new(job["name"])
    twin = job.get("twin", False)
    iface, app_kind, n = job["iface"], job["app"], job["n"]
    eng = Engine(budget_s=job.get("budget", 1800))
    free = SStr.fresh(n, "p", 0, 0x10FFFF, eng.solver)
    if iface == "wsgi" and n >= 3:
        # the WSGI presentation (UTF-8 bytes shown as latin-1, undone by the application) costs a fork per encoding class and character:
        # beyond 2 free characters the WSGI jobs range over ASCII (where path structure lives); non-ASCII names are covered by the jobs with <= 2
        for c in free.items:
            eng.solver.add(c.e < 128)
    path = SStr([ord(c) for c in job.get("pre", "")] + free.items + [ord(c) for c in job.get("post", "")])
    shims = make_shims()
    SSeq.NORMALIZE = False

    def fn():
        try:
            try:
                got = run_app(iface, app_kind, path, job.get("dirmode", "abs"), job.get("mount", ""), bool(job.get("handle_404")))
            finally:
                sympath.CWD = "/srv"
            err = None
        except Exception as ex:  # noqa: BLE001
            got, err = None, ex
        exp = expected(app_kind, path)
        return got, err, exp

    def on_path(e, r):
        kind, v = r
        klass = detail = None
        outcome = None
        try:
            if kind == "exc":
                raise Fail(f"harness-exception:{type(v).__name__}", repr(v))
            if twin:
                raise Fail("twin-assert-false")
            got, err, exp = v
            if err is not None:
                raise Fail(f"exception:{type(err).__name__}", f"{err!r}; the statement expects {exp[0]}")
            status, opened, redirects = got
            dpre = _items_of(DIR + "/")
            for f in opened:
                fi = _items_of(f)
                inside = len(fi) > len(dpre) and not e.check(z3.Or([term_of(a) != term_of(b) for a, b in zip(fi, dpre) if not z3.eq(term_of(a), term_of(b))] + [z3.BoolVal(False)]))
                if not inside:
                    raise Fail("file-outside-directory-opened", repr(conc(f, e.witness())))
            if exp[0] == "serve-or-404":
                if status == 404 and not opened:
                    exp = ("404", None)
                else:
                    exp = ("serve", exp[1])
            if exp[0] == "serve":
                if status != 200 or len(opened) != 1:
                    raise Fail("in-tree-file-not-served", f"status {status}, expected to serve {exp[1]}")
                if not same_text(e, opened[0], exp[1]):
                    raise Fail("wrong-file-served", f"expected {exp[1]}")
                outcome = "served"
            elif exp[0] == "redirect":
                if status != 307 or len(redirects) != 1 or opened:
                    raise Fail("directory-without-slash-not-redirected", f"status {status}")
                tgt = redirects[0]
                if not same_text(e, tgt.path, SStr([ord(c) for c in job.get("mount", "")] + path.items + [47])):
                    raise Fail("redirect-target-wrong")  # "the same URL plus '/'": the mount point (SCRIPT_NAME / root_path) is part of that URL
                tp = _items_of(tgt.path)
                if not tgt.host_kept and len(tp) >= 2 and e.check(z3.And(term_of(tp[0]) == 47, term_of(tp[1]) == 47)):
                    # without an authority a Location starting with '//' IS an authority: the redirect leaves the site
                    raise Fail("redirect-target-is-a-network-path")
                outcome = "redirect"
            else:
                if status != 404 or opened:
                    raise Fail("served-although-not-a-file-of-the-directory", f"status {status}, opened {[conc(f, e.witness()) for f in opened]}")
                outcome = "404"
        except Fail as f:
            klass, detail = f.klass, f.detail
        if klass != "redirect-target-is-a-network-path":  # that verdict comes with its own model (the last check)
            e.last_sat = False
        m = e.witness()
        wit = {"iface": iface, "app": app_kind, "path": conc(path, m), "dirmode": job.get("dirmode", "abs"), "mount": job.get("mount", ""), "handle_404": bool(job.get("handle_404"))}
        with shims.off():
            cp = concrete_path(wit)
        if klass is not None:
            key = klass.split(":")[0] if not klass.startswith("exception:") else klass
            res.violation(f"C07/{app_kind}/{key}", wit, f"{klass} {detail}; concrete (real files in a temp dir): {cp}", (cp is not None) or twin)
            return
        res.kind(outcome)
        if cp is not None:
            res["harness_errors"].append(f"symbolic path holds but the concrete run fails: {wit!r}: {cp}")
        res["validated"] += 1
        res.sample({"app": app_kind, "path": repr(wit["path"]), "outcome": outcome}, limit=1)

    try:
        with shims:
            eng.explore(fn, on_path)
    finally:
        SSeq.NORMALIZE = True
    res.absorb_engine(eng)
    return res


def same_text(e: Engine, a, b) -> bool:
    ai, bi = _items_of(a), _items_of(b)
    if len(ai) != len(bi):
        return False
    d = [term_of(x) != term_of(y) for x, y in zip(ai, bi) if not z3.eq(term_of(x), term_of(y))]
    return not (d and e.check(z3.Or(d)))


# ------------------------------------------------------------------ concrete replay on a real directory
_TMP = {}


def real_tree():
    import tempfile
    if "d" not in _TMP:
        base = tempfile.mkdtemp(prefix="c07_")
        for key, kind in TREE.items():
            if key in ("/", "/srv"):
                continue
            p = base + key[len("/srv"):]
            if kind == "d":
                _os.makedirs(p, exist_ok=True)
            elif kind.startswith("l:"):
                _os.makedirs(_os.path.dirname(p), exist_ok=True)
                _os.makedirs(base + kind[2:][len("/srv"):], exist_ok=True)
                _os.symlink(base + kind[2:][len("/srv"):], p)
            elif kind == "s":
                import socket
                _os.makedirs(_os.path.dirname(p), exist_ok=True)
                sk = socket.socket(socket.AF_UNIX)
                sk.bind(p)
                sk.close()
            else:
                _os.makedirs(_os.path.dirname(p), exist_ok=True)
                with open(p, "w") as f:
                    f.write("content of " + key)
        _TMP["d"] = base
        import atexit
        import shutil
        atexit.register(lambda: shutil.rmtree(base, ignore_errors=True))
    return _TMP["d"]


def py_expected(app_kind: str, path: str, base: str):
    stack = ["srv", "www"]
    for seg in path.split("/"):
        if seg in ("", "."):
            continue
        if seg == "..":
            if stack:
                stack.pop()
        else:
            stack.append(seg)
    if stack[:2] != ["srv", "www"]:
        return ("404", None)
    key = "/" + "/".join(stack)
    kind = TREE.get(key)
    if kind and kind.startswith("l:"):
        key, kind = kind[2:], TREE[kind[2:]]
    trailing = path.endswith("/")
    if app_kind == "files":
        if kind == "f":
            return ("serve-or-404", key) if trailing else ("serve", key)
        return ("404", None)
    if trailing:
        if kind == "d":
            k2 = key + "/index.html"
            return ("serve", k2) if TREE.get(k2) == "f" else ("404", None)
        return ("serve-or-404", key) if kind == "f" else ("404", None)
    if kind == "f":
        return ("serve", key)
    if kind == "d":
        return ("redirect", None)
    if len(stack) > 2 and not stack[-1].endswith(".html") and TREE.get(key + ".html") == "f":
        return ("serve", key + ".html")
    return ("404", None)


def _remove_dot_segments(path: str) -> str:
    """RFC 3986 section 5.2.4 (urljoin applies it to relative references only; compare like with like)"""
    out: List[str] = []
    for seg in path.split("/")[1:]:
        if seg == ".":
            continue
        if seg == "..":
            if out:
                out.pop()
            continue
        out.append(seg)
    if path.endswith(("/.", "/..")):
        out.append("")
    return "/" + "/".join(out)


def concrete_path(w) -> Optional[str]:
    """unshimmed real code on a real temp directory with real files; audit of what gets opened via the response body"""
    nrm = SSeq.NORMALIZE
    SSeq.NORMALIZE = True
    cwd0 = None
    try:
        base = real_tree()
        root = base + "/www"
        iface, app_kind, path = w["iface"], w["app"], w["path"]
        mod = WS if iface == "wsgi" else AS
        if w.get("dirmode") == "rel":
            cwd0 = _os.getcwd()
            try:
                _os.chdir(base)
                app = (mod.Files if app_kind == "files" else mod.Pages)("www")
                _os.chdir(base + "/wwwx")
            except BaseException:
                _os.chdir(cwd0)
                raise
        else:
            app = (mod.Files if app_kind == "files" else mod.Pages)(root, **({"handle_404": _not_found_app(iface)} if w.get("handle_404") else {}))
        exp = py_expected(app_kind, path, base)
        status = None
        body = b""
        loc = None
        try:
            if iface == "wsgi":
                calls = []
                env = {"REQUEST_METHOD": "GET", "PATH_INFO": wsgi_presentation(path), "SCRIPT_NAME": w.get("mount", ""), "wsgi.url_scheme": "http", "SERVER_NAME": "h", "SERVER_PORT": "80", "QUERY_STRING": ""}
                body = b"".join(app(env, lambda s, h, e=None: calls.append((s, h))))
                status = int(calls[0][0].split()[0])
                loc = dict((k.lower(), v) for k, v in calls[0][1]).get("location")
            else:
                import asyncio
                sent = []

                async def send(m):
                    sent.append(m)

                async def receive():
                    return {"type": "http.disconnect"}
                asyncio.run(app({"type": "http", "method": "GET", "path": path, "root_path": w.get("mount", ""), "headers": [], "scheme": "http", "server": ("h", 80), "query_string": b""}, receive, send))
                status = sent[0]["status"]
                body = b"".join(m.get("body", b"") for m in sent[1:])
                loc = dict((k.decode().lower(), v.decode()) for k, v in sent[0].get("headers", [])).get("location")
        except HTTPException as ex:
            status = ex.status_code
        except Exception as ex:  # noqa: BLE001
            return f"exception {type(ex).__name__}: {ex} (statement expects {exp[0]})"
        if body.startswith(b"content of ") and not body.startswith(b"content of /srv/www/"):
            return f"content of a file outside the directory was served: {body!r}"
        if exp[0] == "serve-or-404":
            exp = ("404", None) if status == 404 else ("serve", exp[1])
        if exp[0] == "serve":
            if status != 200 or body != ("content of " + exp[1]).encode():
                return f"status {status} body {body!r}; expected content of {exp[1]}"
        elif exp[0] == "redirect":
            if status != 307:
                return f"status {status}; expected redirect to path + '/'"
            from urllib.parse import quote
            qp = quote(w.get("mount", "") + path + "/", safe="/#%[]=:;$&()+,!?*@'~")
            if loc is None or not loc.endswith(qp):
                return f"redirect location {loc!r} for path {path!r}"
            if path.startswith("/"):
                # what a client does with it: resolve against the request URL; it must stay on the host, at the same path + '/'
                req_url = "http://h" + qp[:-1]
                # RFC 3986 5.2.2 by hand (urljoin has its own ideas about empty segments): network-path, absolute-path, else full URL
                if loc.startswith("//"):
                    netloc, _, rest = loc[2:].partition("/")
                    got = (netloc, "/" + rest)
                elif loc.startswith("/"):
                    got = ("h", loc)
                else:
                    from urllib.parse import urlsplit
                    got = (urlsplit(loc).netloc, urlsplit(loc).path)
                if (got[0], _remove_dot_segments(got[1])) != ("h", _remove_dot_segments(qp)):
                    return f"redirect location {loc!r} resolves to host {got[0]!r} path {got[1]!r} for request {req_url!r}"
        elif status != 404:
            return f"status {status} body {body!r}; expected 404"
        return None
    finally:
        SSeq.NORMALIZE = nrm
        if cwd0 is not None:
            _os.chdir(cwd0)


def jobs(tier: str):
    thorough = tier == "thorough"
    nmax = META["bounds"][tier]["free_path_len_max"]
    out = []
    for iface in ("wsgi", "asgi"):
        for app in ("files", "pages"):
            for n in range(0, nmax + 1):
                if iface == "asgi" and n == nmax and not thorough:
                    continue
                out.append(dict(name=f"{iface}/{app}/free{n}", iface=iface, app=app, n=n, weight=4 ** n))
            for n in range(0, (7 if thorough else 6) + 1):
                if iface == "asgi" and n > 4 and not thorough:
                    continue
                out.append(dict(name=f"{iface}/{app}/dotdot+{n}", iface=iface, app=app, n=n, pre="/../", weight=4 ** n))
            for n in range(0, (4 if thorough else 3) + 1):
                out.append(dict(name=f"{iface}/{app}/{n}+index", iface=iface, app=app, n=n, post="/index.html", weight=4 ** n))
            for n in range(0, (5 if thorough else 4) + 1):
                out.append(dict(name=f"{iface}/{app}/{n}+html", iface=iface, app=app, n=n, post=".html", weight=4 ** n))
            # a path segment longer than NAME_MAX (the concrete prefix fills it; the symbolic characters decide where it ends)
            # the app mounted below a prefix (Subpaths / a server-side mount): the directory redirect keeps the mount point
            if app == "pages":
                for n in (1, 2):
                    out.append(dict(name=f"{iface}/{app}/mounted/free{n + 1}", iface=iface, app=app, n=n, pre="/", mount="/m", weight=4 ** n))
            # directory configured as a relative path, working directory changed afterwards
            # a handle_404 application configured (non-default): served files and the directory redirect must not depend on it
            for n in range(0, 3 if thorough else 2):
                out.append(dict(name=f"{iface}/{app}/handle-404/free{n + 1}", iface=iface, app=app, n=n, pre="/", handle_404=True, weight=4 ** n))
            for n in range(0, 3 if thorough else 2):
                out.append(dict(name=f"{iface}/{app}/reldir/free{n + 1}", iface=iface, app=app, n=n, pre="/", dirmode="rel", weight=4 ** n))
            out.append(dict(name=f"{iface}/{app}/reldir/dotdot+2", iface=iface, app=app, n=2, pre="/../", dirmode="rel", weight=16))
            out.append(dict(name=f"{iface}/{app}/longname+2", iface=iface, app=app, n=2, pre="/" + "a" * 254, weight=20))
    for iface in ("wsgi", "asgi"):
        for app in ("files", "pages"):
            out.append(dict(name=f"{iface}/{app}/mounted/recipes-real-url", kind="mounted-recipes", iface=iface, app=app, weight=30))
    out.append(dict(name="twin", iface="wsgi", app="files", n=2, twin=True))
    return out


MOUNT_RECIPES = [(mount, path) for mount in ("/d", "/e", "/www", "/d/g") for path in ("/d", "/e", "/d/", "/d/g", "/e/h", "/f", "/", "/d/index.html", "/dx", "/up")]


def job_mounted_recipes(job) -> report.JobResult:
    """Pages / Files mounted at a prefix whose text also begins request paths (mount '/d' and a directory 'd' inside it): the REAL URL class builds the
    redirect here (the symbolic jobs replace it by a stand-in).  The (mount, path) pair is a solver-chosen element of an enumerated list; each is
    run on the real code over a real directory -- a RECIPE (sampling), not a symbolic exploration."""
    res = report.JobResult.new(job["name"])
    eng = Engine(budget_s=600)

    def fn():
        e = cur()
        mount, path = MOUNT_RECIPES[e.choose(len(MOUNT_RECIPES), "recipe")]
        w = {"iface": job["iface"], "app": job["app"], "path": path, "mount": mount}
        cp = concrete_path(w)
        if cp is not None:
            raise Fail("mounted-app-wrong", f"{w}: {cp}")
        return w

    def on_path(e, r):
        kind, v = r
        if kind == "exc":
            if isinstance(v, Fail):
                mount, path = v.detail.split(": ", 1)[0], None
                import ast
                w = ast.literal_eval(v.detail.split("}: ", 1)[0] + "}")
                res.violation(f"C07/{job['iface']}/{job['app']}/mounted/{v.klass}", w, v.detail, concrete_path(w) is not None)
            else:
                res.violation(f"C07/{job['iface']}/{job['app']}/mounted/exception", {"job": job["name"]}, repr(v), False)
            return
        res.kind("contained")
        res["validated"] += 1
        res.sample(v, limit=1)
    eng.explore(fn, on_path)
    res.absorb_engine(eng)
    return res


def run_job(job):
    return job_mounted_recipes(job) if job.get("kind") == "mounted-recipes" else job_path(job)


def replay(rec) -> int:
    cp = concrete_path(rec["witness"])
    print(f"replay C07: {rec['witness']!r} -> {cp}")
    return 1 if cp else 0
