"""C03 -- a Range header resolves to the canonical set of satisfiable byte ranges.

Real code run: baize.responses.FileResponseMixin.parse_range (imported from /repo).

Layer 1 ("ints"):  re.findall is stubbed to hand back digit-string stand-ins whose int() is an
  *unbounded* symbolic Int and whose truthiness is the enumerated spec form (a-b / a- / -b);
  size is an unbounded symbolic Int >= 0.  The solver decides the property over ALL integers.
Layer 2a ("tmpl"): real regex (ReShim interpreting the pattern text parse_range passes) and real
  int() semantics on symbolic decimal digits, header templates enumerated.
Layer 2b ("text"): "bytes=" + m fully symbolic Latin-1 characters, and n fully symbolic characters:
  arbitrary text is either rejected with 400/416 or resolved to a canonical range list.
"""
from __future__ import annotations

import itertools
import time
from typing import Any, List, Optional, Tuple

import z3

import baize.responses as R
from baize.exceptions import HTTPException, MalformedRangeHeader, RangeNotSatisfiable
from baize.responses import FileResponseMixin

from engine import report
from engine.forksym import Engine, SInt, conc, lift, term_of
from engine.reshim import ReShim
from engine.shims import Shims, int_shim
from engine.symseq import SStr

PID = "C03"

META = {
    "functions": lambda: [FileResponseMixin.parse_range],
    "engines": ["E-FS (forksym: fork-on-branch symbolic execution of the real function, z3 Int/LIA)"],
    "stubs": [
        "layer ints: baize.responses.re -> findall() returning spec stand-ins (form enumerated, values symbolic); "
        "baize.responses.int -> int_shim (returns the stand-in's unbounded z3 Int)",
        "layers tmpl/text: baize.responses.re -> ReShim (interprets the real pattern text over symbolic chars); "
        "baize.responses.int -> int_shim (sum of digit*10^i over symbolic digit chars)",
    ],
    "assumptions": [
        "layer ints covers syntactically well-formed headers (comma separated first-last / first- / -suffix); "
        "number values and the file size are unbounded non-negative integers",
        "text layers: characters are Latin-1 (what an HTTP header value can carry)",
    ],
    "bounds": {
        "quick": {"ints_specs_max": 3, "tmpl_digits_max": 2, "tmpl_specs_max": 2, "text_free_chars": 4, "text_all_symbolic_len": 6},
        "thorough": {"ints_specs_max": 4, "tmpl_digits_max": 3, "tmpl_specs_max": 3, "text_free_chars": 6, "text_all_symbolic_len": 8},
    },
    "outside": ["range sets with more specs than the bound", "numbers with more digits than the bound in the text layers "
                "(all magnitudes are covered by layer ints)", "headers longer than the text bound",
                "CPython's 4300-digit int() limit (needs >4300 chars)"],
    "expect_kinds": {"all": ["accepted", "400", "416"]},
}

FORMS = ["ab", "a-", "-b"]


# ------------------------------------------------------------------ concrete oracle
def denoted(specs: List[Tuple[Optional[int], Optional[int]]], size: int):
    """(malformed, unsatisfiable, set of positions) per the property statement."""
    mal = unsat = False
    pos = set()
    for a, b in specs:
        if a is not None and b is not None:
            if a > b:
                mal = True
            if a >= size:
                unsat = True
            pos |= set(range(a, min(b, size - 1) + 1))
        elif a is not None:
            if a >= size:
                unsat = True
            pos |= set(range(a, size))
        else:
            if b == 0 or b > size:
                unsat = True
            pos |= set(range(max(0, size - b), size))
    return mal, unsat, pos


def canonical_problem(r, size: int) -> Optional[str]:
    if len(r) == 0:
        return "empty-result"
    for s, e in r:
        if not (0 <= s and e <= size):
            return "out-of-bounds"
        if not s < e:
            return "empty-range"
    for (s0, e0), (s1, e1) in zip(r, r[1:]):
        if not e0 < s1:
            return "overlap-adjacent-or-unsorted"
    return None


def parse_specs_concrete(header: str):
    """Grammar-conformant header -> spec list, else None."""
    import re
    if not header.startswith("bytes="):
        return None
    out = []
    for part in header[6:].split(","):
        m = re.fullmatch(r"[ \t]*([0-9]*)-([0-9]*)[ \t]*", part)
        if not m or (m.group(1) == "" and m.group(2) == ""):
            return None
        out.append((int(m.group(1)) if m.group(1) else None, int(m.group(2)) if m.group(2) else None))
    return out


def concrete_verdict(header: str, size: int, lenient: bool) -> Optional[Tuple[str, str]]:
    """Run the real, unshimmed parse_range; return (failure class, detail) or None."""
    try:
        r = FileResponseMixin.parse_range(header, size)
    except (MalformedRangeHeader, RangeNotSatisfiable) as e:
        out = e.status_code
    except Exception as e:  # noqa: BLE001
        return (f"unexpected-exception:{type(e).__name__}", repr(e))
    else:
        out = list(r)
    specs = None if lenient else parse_specs_concrete(header)
    if specs is None:
        if isinstance(out, int):
            return None if out in (400, 416) else ("wrong-status", str(out))
        p = canonical_problem(out, size)
        return (p, f"result {out}") if p else None
    mal, unsat, pos = denoted(specs, size)
    if out == 400:
        return None if mal else ("wrong-rejection-class", "400 but no spec has first > last")
    if out == 416:
        return None if unsat else ("wrong-rejection-class", "416 but every spec is satisfiable")
    if mal or unsat:
        p = canonical_problem(out, size)
        return (p or "accepted-but-should-reject", f"result {out}, malformed={mal} unsatisfiable={unsat}")
    p = canonical_problem(out, size)
    if p:
        return (p, f"result {out}")
    got = set()
    for s, e in out:
        got |= set(range(s, e))
    if got != pos:
        return ("union-mismatch", f"result {out} covers {len(got)} positions, specs denote {len(pos)}")
    return None


def real_outcome(header: str, size: int):
    try:
        return [tuple(x) for x in FileResponseMixin.parse_range(header, size)]
    except HTTPException as e:
        return e.status_code
    except Exception as e:  # noqa: BLE001
        return f"exc:{type(e).__name__}"


# ------------------------------------------------------------------ symbolic oracle
def sym_oracle(e: Engine, kind: str, v, size, specs_sym, x):
    """specs_sym: list of (form, a_term, b_term). Returns failure class or None (solver-decided)."""
    mal = z3.Or([a > b for f, a, b in specs_sym if f == "ab"] + [z3.BoolVal(False)])
    uns = z3.Or([a >= size for f, a, b in specs_sym if f in ("ab", "a-")]
                + [z3.Or(b == 0, b > size) for f, a, b in specs_sym if f == "-b"] + [z3.BoolVal(False)])
    if kind == "exc":
        if isinstance(v, MalformedRangeHeader):
            return "wrong-rejection-class" if e.check(z3.Not(mal)) else None
        if isinstance(v, RangeNotSatisfiable):
            return "wrong-rejection-class" if e.check(z3.Not(uns)) else None
        return f"unexpected-exception:{type(v).__name__}"
    r = [(term_of(s), term_of(en)) for s, en in v]
    if not r:
        return "empty-result"
    if e.check(z3.Or(mal, uns)):
        return "accepted-but-should-reject"
    if e.check(z3.Not(z3.And([z3.And(0 <= s, en <= size) for s, en in r]))):
        return "out-of-bounds"
    if e.check(z3.Not(z3.And([s < en for s, en in r]))):
        return "empty-range"
    if e.check(z3.Not(z3.And([r[i - 1][1] < r[i][0] for i in range(1, len(r))] + [z3.BoolVal(True)]))):
        return "overlap-adjacent-or-unsorted"

    def den(f, a, b):
        if f == "ab":
            return z3.And(a <= x, x <= b, x < size)
        if f == "a-":
            return z3.And(a <= x, x < size)
        return z3.And(size - b <= x, 0 <= x, x < size)

    inspec = z3.Or([den(f, a, b) for f, a, b in specs_sym])
    inres = z3.Or([z3.And(s <= x, x < en) for s, en in r])
    if e.check(inres != inspec):
        return "union-mismatch"
    return None


def sym_canonical_only(e: Engine, kind, v, size):
    if kind == "exc":
        if isinstance(v, (MalformedRangeHeader, RangeNotSatisfiable)):
            return None
        return f"unexpected-exception:{type(v).__name__}"
    r = [(term_of(s), term_of(en)) for s, en in v]
    if not r:
        return "empty-result"
    if e.check(z3.Not(z3.And([z3.And(0 <= s, s < en, en <= size) for s, en in r]))):
        return "empty-range-or-out-of-bounds"
    if e.check(z3.Not(z3.And([r[i - 1][1] < r[i][0] for i in range(1, len(r))] + [z3.BoolVal(True)]))):
        return "overlap-adjacent-or-unsorted"
    return None


# ------------------------------------------------------------------ layer 1 stand-ins
class _D:
    """Stand-in for one regex group: present/absent is concrete (enumerated form), value symbolic."""

    def __init__(self, present, v):
        self.p = present
        self.v = v

    def __bool__(self):
        return self.p

    def __eq__(self, o):
        if isinstance(o, str):
            return (not self.p) if o == "" else False
        return NotImplemented

    def __ne__(self, o):
        return not self.__eq__(o)

    def __hash__(self):
        return 0


class _ReStub:
    def __init__(self, specs):
        self.specs = specs

    def findall(self, pattern, s):
        assert pattern == r"(\d*)-(\d*)", f"parse_range now uses another pattern: {pattern!r}"
        return list(self.specs)


def _int_l1(x, *a):
    if isinstance(x, _D):
        if not x.p:
            raise ValueError("invalid literal for int() with base 10: ''")
        return x.v
    return int_shim(x, *a)


def header_of(forms, avals, bvals) -> str:
    parts = []
    for f, a, b in zip(forms, avals, bvals):
        parts.append(f"{a}-{b}" if f == "ab" else f"{a}-" if f == "a-" else f"-{b}")
    return "bytes=" + ",".join(parts)


def _record(res, klass, header, size, job, lenient, twin=False):
    cv = concrete_verdict(header, size, lenient)
    reproduced = cv is not None or twin
    key = f"C03/parse_range/{cv[0] if cv else klass}"
    res.violation(key, {"header": header, "size": size}, f"symbolic class {klass}; concrete: {cv}", reproduced)


def job_ints(job) -> report.JobResult:
    forms = job["forms"]
    twin = job.get("twin", False)
    k = len(forms)
    res = report.JobResult.new(job["name"])
    eng = Engine()
    eng.render_opaque = True  # only the 416 exception's '*/{size}' text is rendered here; nobody reads it
    size = z3.Int("size")
    x = z3.Int("x")
    A = [z3.Int(f"a{i}") for i in range(k)]
    B = [z3.Int(f"b{i}") for i in range(k)]
    eng.solver.add(size >= 0, *[a >= 0 for a in A], *[b >= 0 for b in B])
    specs = [(_D(f[0] == "a", SInt(a)), _D(f[1] == "b", SInt(b))) for f, a, b in zip(forms, A, B)]
    specs_sym = list(zip(forms, A, B))
    shims = Shims().add(R, re=_ReStub(specs), int=_int_l1)

    def fn():
        return FileResponseMixin.parse_range("bytes=x", SInt(size))

    def on_path(e, r):
        kind, v = r
        res.kind("accepted" if kind == "ok" else str(getattr(v, "status_code", "exc")))
        klass = "twin-assert-false" if twin else sym_oracle(e, kind, v, size, specs_sym, x)
        m = witness_model(e, klass)
        av = [m.eval(a, True).as_long() for a in A]
        bv = [m.eval(b, True).as_long() for b in B]
        sz = m.eval(size, True).as_long()
        hdr = header_of(forms, av, bv)
        if klass is not None:
            with shims.off():
                _record(res, klass, hdr, sz, job, False, twin)
            return
        # translator validation: unshimmed real code on the path's model must agree
        with shims.off():
            real = real_outcome(hdr, sz)
        symv = conc([tuple(t) for t in v], m) if kind == "ok" else getattr(v, "status_code", "exc")
        if real != symv:
            res["harness_errors"].append(f"shim/real disagreement on {hdr!r} size={sz}: real={real} sym={symv}")
        res["validated"] += 1
        res.sample({"header": hdr, "size": sz, "outcome": real})

    with shims:
        eng.explore(fn, on_path)
    res.absorb_engine(eng)
    return res


def witness_model(e: Engine, klass):
    """Model of the failing query (last sat check) or, when the class was decided without a
    query / the path holds, any model of the path condition."""
    if klass is None or klass.startswith(("unexpected", "twin", "empty-result")):
        e.check()
    return e.solver.model()


# ------------------------------------------------------------------ layer 2a: templates through the real regex
def job_tmpl(job) -> report.JobResult:
    forms = job["forms"]
    nd = job["digits"]
    seps = job["seps"]
    twin = job.get("twin", False)
    res = report.JobResult.new(job["name"])
    eng = Engine()
    size = z3.Int("size")
    x = z3.Int("x")
    eng.solver.add(size >= 0, size <= 10 ** nd + 1)
    items: List[Any] = [ord(c) for c in "bytes="]
    specs_sym = []
    dvars = []
    for i, f in enumerate(forms):
        if i:
            items.extend(ord(c) for c in seps[i - 1])

        def digits(tag):
            ds = []
            for j in range(nd):
                v = z3.Int(f"{tag}{i}_{j}")
                eng.solver.add(v >= 48, v <= 57)
                ds.append(v)
            dvars.extend(ds)
            val = z3.IntVal(0)
            for v in ds:
                val = val * 10 + (v - 48)
            return ds, val
        a = b = None
        pad = [48] * job.get("zero_pad", 0)  # leading zeros: '0000000000000000000007' is the number 7, however long it is written
        if f[0] == "a":
            ds, a = digits("a")
            items.extend(pad)
            items.extend(SInt(v) for v in ds)
        items.append(ord("-"))
        if f[1] == "b":
            ds, b = digits("b")
            items.extend(pad)
            items.extend(SInt(v) for v in ds)
        specs_sym.append((f, a, b))
    header = SStr(items)
    shims = Shims().add(R, re=ReShim, int=int_shim)
    import sys
    old_limit = sys.get_int_max_str_digits()
    if job.get("int_limit") is not None:
        # interpreter configuration (-X int_max_str_digits / PYTHONINTMAXSTRDIGITS): 0 switches the digit limit off
        sys.set_int_max_str_digits(job["int_limit"])

    def fn():
        return FileResponseMixin.parse_range(header, SInt(size))

    def on_path(e, r):
        kind, v = r
        res.kind("accepted" if kind == "ok" else str(getattr(v, "status_code", "exc")))
        klass = "twin-assert-false" if twin else sym_oracle(e, kind, v, size, specs_sym, x)
        m = witness_model(e, klass)
        hdr = conc(header, m)
        sz = m.eval(size, True).as_long()
        if klass is not None:
            with shims.off():
                _record(res, klass, hdr, sz, job, False, twin)
            return
        with shims.off():
            real = real_outcome(hdr, sz)
        symv = conc([tuple(t) for t in v], m) if kind == "ok" else getattr(v, "status_code", "exc")
        if real != symv:
            res["harness_errors"].append(f"shim/real disagreement on {hdr!r} size={sz}: real={real} sym={symv}")
        res["validated"] += 1
        res.sample({"header": hdr, "size": sz, "outcome": real})

    try:
        with shims:
            eng.explore(fn, on_path)
    finally:
        sys.set_int_max_str_digits(old_limit)
    res.absorb_engine(eng)
    return res


# ------------------------------------------------------------------ layer 2b: arbitrary text
def job_text(job) -> report.JobResult:
    prefix = job["prefix"]
    n = job["n"]
    twin = job.get("twin", False)
    res = report.JobResult.new(job["name"])
    eng = Engine(budget_s=job.get("budget", 600))
    eng.render_opaque = True  # only the 416 exception text renders the size; nobody reads it
    size = z3.Int("size")
    eng.solver.add(size >= 0)
    cs = SStr.fresh(n, "c", 0, 255, solver=eng.solver)
    header = SStr([ord(c) for c in prefix] + cs.items)
    shims = Shims().add(R, re=ReShim, int=int_shim)

    def fn():
        return FileResponseMixin.parse_range(header, SInt(size))

    def on_path(e, r):
        kind, v = r
        res.kind("accepted" if kind == "ok" else str(getattr(v, "status_code", "exc")))
        klass = "twin-assert-false" if twin else sym_canonical_only(e, kind, v, size)
        m = witness_model(e, klass)
        hdr = conc(header, m)
        sz = m.eval(size, True).as_long()
        if klass is not None:
            with shims.off():
                _record(res, klass, hdr, sz, job, True, twin)
            return
        with shims.off():
            real = real_outcome(hdr, sz)
        symv = conc([tuple(t) for t in v], m) if kind == "ok" else getattr(v, "status_code", "exc")
        if real != symv:
            res["harness_errors"].append(f"shim/real disagreement on {hdr!r} size={sz}: real={real} sym={symv}")
        res["validated"] += 1
        res.sample({"header": hdr, "size": sz, "outcome": real}, limit=2)

    with shims:
        eng.explore(fn, on_path)
    res.absorb_engine(eng)
    return res


# ------------------------------------------------------------------ job table
def jobs(tier: str):
    b = META["bounds"][tier]
    out = []
    for k in range(1, b["ints_specs_max"] + 1):
        for forms in itertools.product(FORMS, repeat=k):
            out.append(dict(name=f"ints/{','.join(forms)}", layer="ints", forms=list(forms), weight=3 ** k))
    out.append(dict(name="twin/ints/ab", layer="ints", forms=["ab"], twin=True))
    for k in range(1, b["tmpl_specs_max"] + 1):
        for forms in itertools.product(FORMS, repeat=k):
            for nd in range(1, b["tmpl_digits_max"] + 1):
                if k * nd > 6:
                    continue
                for sep in ([","], [", "]) if k > 1 else ([],):
                    out.append(dict(name=f"tmpl/{','.join(forms)}/d{nd}/sep{len(sep[0]) if sep else 0}", layer="tmpl",
                                    forms=list(forms), digits=nd, seps=sep * (k - 1), weight=4 ** (k * nd)))
    for lim in (0, 640):
        out.append(dict(name=f"tmpl/ab,a-/d1/int-digit-limit-{lim or 'off'}", layer="tmpl", forms=["ab", "a-"], digits=1, seps=[","], int_limit=lim, weight=20))
    # numbers written with leading zeros, longer than any machine word has digits (20 and 40 characters)
    for forms in (["ab"], ["a-"], ["-b"], ["ab", "ab"]):
        for pad in (19, 38):
            out.append(dict(name=f"tmpl/{','.join(forms)}/d2/zero-padded-to-{pad + 2}", layer="tmpl", forms=list(forms), digits=2, seps=[","] * (len(forms) - 1),
                            zero_pad=pad, weight=300))
    out.append(dict(name="twin/tmpl/ab", layer="tmpl", forms=["ab"], digits=1, seps=[], twin=True))
    for m in range(0, b["text_free_chars"] + 1):
        out.append(dict(name=f"text/bytes=+{m}", layer="text", prefix="bytes=", n=m, weight=5 ** m))
    for n in range(0, b["text_all_symbolic_len"] + 1):
        out.append(dict(name=f"text/all{n}", layer="text", prefix="", n=n, weight=2 ** n))
    out.append(dict(name="twin/text", layer="text", prefix="bytes=", n=1, twin=True))
    for iface in ("asgi", "wsgi"):
        for n in (1, 2):
            out.append(dict(name=f"handover/{iface}/bytes+{n}", layer="handover", iface=iface, n=n, weight=10 ** n))
    return out


# ------------------------------------------------------------------ layer 3: the header text that reaches parse_range through a file response
class _Stop(Exception):
    pass


def handed_over(iface: str, header_bytes):
    """the text FileResponse hands to parse_range for these Range header bytes (WSGI servers deliver the bytes as a Latin-1 str already)"""
    import baize.asgi.responses as A
    import baize.wsgi.responses as W
    from engine.vloop import drive
    seen = []

    def spy(text, size):
        seen.append(text)
        raise _Stop()

    class St:
        st_mode = 0o100644
        st_size = 100
        st_mtime = st_ctime = 1700000000.0
    orig = FileResponseMixin.__dict__["parse_range"]
    FileResponseMixin.parse_range = staticmethod(spy)
    try:
        if iface == "asgi":
            async def send(m):
                pass

            async def receive():
                return {"type": "http.disconnect"}
            drive(A.FileResponse("/d/f.bin", stat_result=St())({"type": "http", "method": "GET", "headers": [(b"range", header_bytes)]}, receive, send))
        else:
            text = header_bytes.decode("latin-1")
            list(W.FileResponse("/d/f.bin", stat_result=St())({"REQUEST_METHOD": "GET", "HTTP_RANGE": text}, lambda s_, h_, e_=None: None))
    except _Stop:
        pass
    finally:
        FileResponseMixin.parse_range = orig
    return seen


def job_handover(job) -> report.JobResult:
    from engine.symseq import SBytes, _items_of
    res = report.JobResult.new(job["name"])
    twin = job.get("twin", False)
    iface, n = job["iface"], job["n"]
    eng = Engine(budget_s=600)
    free = SBytes.fresh(n, "h", 0, 255, eng.solver)
    hdr = SBytes(list(b"bytes=0-1,") + free.items)

    def fn():
        return handed_over(iface, hdr)

    def on_path(e, r):
        kind, v = r
        klass = detail = None
        if kind == "exc":
            klass, detail = f"exception:{type(v).__name__}", repr(v)
        elif twin:
            klass = "twin-assert-false"
        elif len(v) != 1:
            klass, detail = "parse_range-not-called-once", str(len(v))
        else:
            got = _items_of(v[0])
            if len(got) != len(hdr.items):
                klass, detail = "header-text-changed-on-the-way", f"{len(hdr.items)} header bytes became {len(got)} characters"
            else:
                diffs = [term_of(a) != term_of(b) for a, b in zip(got, hdr.items) if not z3.eq(term_of(a), term_of(b))]
                if diffs and e.check(z3.Or(diffs)):
                    klass = "header-text-changed-on-the-way"
        if klass != "header-text-changed-on-the-way" or detail:
            e.last_sat = False
        m = e.witness()
        raw = bytes(conc(hdr, m))
        wit = {"iface": iface, "range_header_bytes_hex": raw.hex()}
        cp = concrete_handover(wit)
        if klass is not None:
            res.violation(f"C03/handover/{iface}/{klass.split(':')[0]}", wit, f"{klass} {detail or ''}; concrete: {cp}", (cp is not None) or twin)
            return
        res.kind("accepted")
        if cp is not None:
            res["harness_errors"].append(f"symbolic path holds but the concrete run fails: {wit}: {cp}")
        res["validated"] += 1
        res.sample(wit, limit=1)
    eng.explore(fn, on_path)
    res.absorb_engine(eng)
    return res


def concrete_handover(w) -> Optional[str]:
    prev = Engine.cur
    Engine.cur = None
    try:
        raw = bytes.fromhex(w["range_header_bytes_hex"])
        try:
            seen = handed_over(w["iface"], raw)
        except Exception as ex:  # noqa: BLE001
            return f"exception {type(ex).__name__}: {ex}"
        if seen != [raw.decode("latin-1")]:
            return f"parse_range received {seen!r} for header bytes {raw!r}"
        return None
    finally:
        Engine.cur = prev


def run_job(job):
    return {"ints": job_ints, "tmpl": job_tmpl, "text": job_text, "handover": job_handover}[job["layer"]](job)


def replay(rec) -> int:
    w = rec["witness"]
    if "range_header_bytes_hex" in w:
        cp = concrete_handover(w)
        print(f"replay C03: {w} -> {cp}")
        return 1 if cp else 0
    lenient = parse_specs_concrete(w["header"]) is None
    cv = concrete_verdict(w["header"], w["size"], lenient)
    print(f"replay C03: parse_range({w['header']!r}, {w['size']}) -> {real_outcome(w['header'], w['size'])}; verdict={cv}")
    return 1 if cv else 0
