#!/bin/sh
# Build the overlay interpreter used by every check, offline, from files on disk only:
#   /verif/.venv  = venv of /venv's python 3.12 + /venv's site-packages (pytest, starlette, ...)
#                   + z3-solver / jsonschema from /opt/veriftools/wheels.
# Idempotent: `./setup.sh` again is a no-op when the marker matches.
set -e
cd "$(dirname "$0")"
MARK=.venv/.ok-v2
if [ -f "$MARK" ] && .venv/bin/python -c "import z3, jsonschema" 2>/dev/null; then
    exit 0
fi
rm -rf .venv
/venv/bin/python -m venv .venv
SP=$(.venv/bin/python -c "import sysconfig; print(sysconfig.get_paths()['purelib'])")
printf "import site; site.addsitedir('/venv/lib/python3.12/site-packages')\n" > "$SP/_verif_overlay.pth"
PIP_NO_INDEX=1 .venv/bin/python -m pip install --quiet --no-index --find-links /opt/veriftools/wheels \
    z3-solver jsonschema >/dev/null
.venv/bin/python -c "import z3, jsonschema, baize; print('overlay ok', z3.get_version_string())"
touch "$MARK"
