#!/usr/bin/env python3
"""Seeded-change bookkeeping.
  seed.py verify Cxx mK     confirm a sub-agent's mutant in its scratch worktree (/tmp/wt/Cxx): clean tree -> demo exits 0
                            and the 77 baseline tests pass; mutated tree -> demo exits 1 and the same 77 pass.
                            On success copies it to /verif/seeded/Cxx-mK/{patch.diff,demo.py,meta.json}.
  seed.py run  Cxx-mK [tier] [PID]   apply the kept patch to /repo, run ./check PID (default: the mutant's property), undo.
  seed.py runall [tier]     run every kept mutant against its property's check; prints a table.
"""
import json, os, subprocess, sys, shutil, time
ROOT = os.path.dirname(os.path.dirname(os.path.abspath(__file__)))
SEEDED = os.path.join(ROOT, "seeded")
BASE = json.load(open("/root/.vp/BASELINE.json"))["stable_pass"]


def sh(cmd, cwd=None, env=None, timeout=1800):
    e = dict(os.environ)
    if env:
        e.update(env)
    p = subprocess.run(cmd, shell=True, cwd=cwd, env=e, capture_output=True, text=True, timeout=timeout)
    return p.returncode, p.stdout + p.stderr


def passing(wt):
    import xml.etree.ElementTree as ET
    x = f"/tmp/seed_junit_{os.getpid()}.xml"
    sh(f"/venv/bin/python -m pytest -q -p no:cacheprovider --timeout=900 --continue-on-collection-errors --junitxml={x}", cwd=wt, env={"PYTHONPATH": wt})
    ok = set()
    for tc in ET.parse(x).getroot().iter("testcase"):
        if not list(tc):
            ok.add(f"{tc.get('classname')}::{tc.get('name')}")
    os.remove(x)
    return ok


def verify(pid, mk, root="/tmp/wt", prefix=""):
    wt = f"{root}/{pid}"
    out = f"{wt}/out"
    diff, demo, meta = f"{out}/{mk}.diff", f"{out}/{mk}_demo.py", f"{out}/{mk}.json"
    for f in (diff, demo, meta):
        assert os.path.exists(f), f
    sh("git checkout -- .", cwd=wt)
    rc0, o0 = sh(f"/venv/bin/python {demo}", cwd=wt, env={"PYTHONPATH": wt}, timeout=300)
    base_ok = set(BASE) <= passing(wt)
    rc, o = sh(f"git apply {diff}", cwd=wt)
    assert rc == 0, o
    try:
        rc1, o1 = sh(f"/venv/bin/python {demo}", cwd=wt, env={"PYTHONPATH": wt}, timeout=300)
        mut_pass = passing(wt)
    finally:
        sh("git checkout -- .", cwd=wt)
    missing = sorted(set(BASE) - mut_pass)
    print(f"{pid}-{mk}: clean demo rc={rc0} baseline_ok={base_ok}; mutated demo rc={rc1} baseline tests lost={missing}")
    ok = rc0 == 0 and rc1 not in (0,) and base_ok and not missing
    if not ok:
        print("  clean demo output:", o0[-400:])
        print("  mutated demo output:", o1[-400:])
        return False
    d = os.path.join(SEEDED, f"{prefix}{pid}-{mk}")
    os.makedirs(d, exist_ok=True)
    shutil.copy(diff, f"{d}/patch.diff")
    shutil.copy(demo, f"{d}/demo.py")
    m = json.load(open(meta))
    m["confirmed"] = {"clean_demo_rc": rc0, "mutated_demo_rc": rc1, "baseline_77_pass_clean": base_ok,
                      "baseline_77_pass_mutated": not missing,
                      "ran": f"git apply patch.diff in a scratch worktree; PYTHONPATH=<wt> /venv/bin/python demo.py; pytest junit compared with BASELINE.json stable_pass",
                      "mutated_demo_tail": o1[-300:]}
    json.dump(m, open(f"{d}/meta.json", "w"), indent=1)
    return True


SCRATCH = os.environ.get("SEEDRUN", "/tmp/seedrun")


def run_scratch(name, tier="quick", pid=None):
    """like run(), but the patch is applied to a scratch worktree of /repo's HEAD and the check analyses that copy
    (VERIF_REPO), so /repo stays untouched and other work can go on meanwhile"""
    d = os.path.join(SEEDED, name)
    pid = pid or (name.split("-")[1] if name.startswith(("r2-", "r3-", "r4-", "r5-", "r6-")) else name.split("-")[0])
    head = sh("git rev-parse HEAD", cwd="/repo")[1].strip()
    if not os.path.isdir(SCRATCH):
        rc, o = sh(f"git worktree add -q --detach {SCRATCH} {head}", cwd="/repo")
        assert rc == 0, o
    sh(f"git checkout -q -f --detach {head} && git clean -fdq", cwd=SCRATCH)
    rc, o = sh(f"git apply {d}/patch.diff", cwd=SCRATCH)
    if rc != 0:
        rc, o = sh(f"patch -p1 --fuzz=3 -s --no-backup-if-mismatch < {d}/patch.diff", cwd=SCRATCH)
    if rc != 0:
        print(f"{name} vs {pid} [{tier}]: PATCH DOES NOT APPLY")
        return 3, o
    t = time.time()
    rc, o = sh(f"./check {pid} --tier {tier}", cwd=ROOT, env={"VERIF_REPO": SCRATCH, "VERIF_SCRATCH_OUT": SCRATCH + ".out"}, timeout=7200)
    sh("git checkout -q -f . && git clean -fdq", cwd=SCRATCH)
    viol = [l for l in o.splitlines() if l.startswith("VIOLATION")]
    print(f"{name} vs {pid} [{tier}]: exit={rc} violations={len(viol)} wall={time.time()-t:.0f}s")
    for l in o.splitlines():
        if l.startswith(("  key=", "HARNESS-ERROR", "INCONCLUSIVE")):
            print("   ", l[:260])
            break
    sys.stdout.flush()
    return rc, o


def run(name, tier="quick", pid=None):
    d = os.path.join(SEEDED, name)
    pid = pid or (name.split("-")[1] if name.startswith(("r2-", "r3-", "r4-", "r5-", "r6-")) else name.split("-")[0])
    rc, o = sh("git status --porcelain", cwd="/repo")
    assert o.strip() == "", "repo dirty: " + o
    rc, o = sh(f"git apply {d}/patch.diff", cwd="/repo")
    if rc != 0:  # context moved because of a later fix: commit; fall back to fuzzy patch
        rc, o = sh(f"patch -p1 --fuzz=3 -s --no-backup-if-mismatch < {d}/patch.diff", cwd="/repo")
    assert rc == 0, o
    t = time.time()
    try:
        rc, o = sh(f"./check {pid} --tier {tier}", cwd=ROOT, timeout=7200)
    finally:
        sh("git checkout -- . && git clean -fdq baize", cwd="/repo")
    viol = [l for l in o.splitlines() if l.startswith("VIOLATION")]
    print(f"{name} vs {pid} [{tier}]: exit={rc} violations={len(viol)} wall={time.time()-t:.0f}s")
    for l in o.splitlines():
        if l.startswith(("VIOLATION", "  key=", "HARNESS-ERROR", "INCONCLUSIVE"))and len(l) < 400:
            print("   ", l[:300])
    return rc, o


if __name__ == "__main__":
    cmd = sys.argv[1]
    if cmd == "verify":
        sys.exit(0 if verify(sys.argv[2], sys.argv[3]) else 1)
    if cmd == "verify2":  # second round: worktrees under /tmp/wt2, stored as seeded/r2-Cnn-mK
        sys.exit(0 if verify(sys.argv[2], sys.argv[3], "/tmp/wt2", "r2-") else 1)
    if cmd == "verify3":  # third round: worktrees under /tmp/wt3, stored as seeded/r3-Cnn-mK
        sys.exit(0 if verify(sys.argv[2], sys.argv[3], "/tmp/wt3", "r3-") else 1)
    if cmd == "verify6":
        sys.exit(0 if verify(sys.argv[2], sys.argv[3], "/tmp/wt6", "r6-") else 1)
    if cmd == "verify5":
        sys.exit(0 if verify(sys.argv[2], sys.argv[3], "/tmp/wt5", "r5-") else 1)
    if cmd == "verify4":  # fourth round: worktrees under /tmp/wt4, stored as seeded/r4-Cnn-mK
        sys.exit(0 if verify(sys.argv[2], sys.argv[3], "/tmp/wt4", "r4-") else 1)
    if cmd == "run":
        run(sys.argv[2], *(sys.argv[3:]))
    if cmd == "runs":
        run_scratch(sys.argv[2], *(sys.argv[3:]))
    if cmd == "runall2":
        tier = sys.argv[2] if len(sys.argv) > 2 else "quick"
        for n in sorted(os.listdir(SEEDED)):
            if n.startswith("r2-") and os.path.isdir(os.path.join(SEEDED, n)):
                run_scratch(n, tier)
    if cmd == "runall":
        tier = sys.argv[2] if len(sys.argv) > 2 else "quick"
        for n in sorted(os.listdir(SEEDED)):
            if os.path.isdir(os.path.join(SEEDED, n)):
                run(n, tier)
    if cmd == "matrix":
        # every stored change (both rounds) against its property's check, in a scratch worktree of /repo's HEAD; writes seeded/RESULTS.json
        tier = sys.argv[2] if len(sys.argv) > 2 else "quick"
        only = sys.argv[3] if len(sys.argv) > 3 else ""
        results = {}
        path = os.path.join(SEEDED, "RESULTS.json")
        if only and os.path.exists(path):
            results = json.load(open(path))
        for n in sorted(os.listdir(SEEDED)):
            if os.path.isdir(os.path.join(SEEDED, n)) and only in n:
                rc, o = run_scratch(n, tier)
                keys = sorted({l.split("key=")[1].split(" ")[0] for l in o.splitlines() if l.startswith("  key=")})
                results[n] = {"exit": rc, "tier": tier, "violation_keys": keys[:6],
                              "note": next((l[:200] for l in o.splitlines() if l.startswith(("HARNESS-ERROR", "INCONCLUSIVE"))), None) if rc == 2 else None}
                json.dump(results, open(path, "w"), indent=1, sort_keys=True)
