#!/usr/bin/env python3
"""seeded/SUMMARY.md from seeded/RESULTS.json (tools/seed.py matrix), the per-change meta.json and seeded/first_pass_notes.json"""
import json
import os

ROOT = os.path.dirname(os.path.dirname(os.path.abspath(__file__)))
SEEDED = os.path.join(ROOT, "seeded")
R = json.load(open(os.path.join(SEEDED, "RESULTS.json")))
NOTES = json.load(open(os.path.join(SEEDED, "first_pass_notes.json")))
rows = []
for n in sorted(R):
    m = json.load(open(os.path.join(SEEDED, n, "meta.json")))
    what = m.get("what", "").replace("|", "\\|").replace("\n", " ")
    if len(what) > 230:
        what = what[:227] + "..."
    k = ", ".join(R[n]["violation_keys"][:2])
    note = NOTES.get(n, {"first_result": "detected", "added": ""})
    rows.append(f"| {n} | {what} | {note['first_result']} | {note['added']} | exit {R[n]['exit']}: `{k}` |")
det = sum(1 for v in R.values() if v["exit"] == 1)
rounds = {"round 1 (Cnn-mK)": [k for k in R if not k.startswith("r")], "round 2 (r2-)": [k for k in R if k.startswith("r2-")], "round 3 (r3-)": [k for k in R if k.startswith("r3-")], "round 4 (r4-)": [k for k in R if k.startswith("r4-")],
          "round 5 (r5-)": [k for k in R if k.startswith("r5-")], "round 6 (r6-)": [k for k in R if k.startswith("r6-")]}
per = "; ".join(f"{name}: {sum(1 for k in ks if R[k]['exit'] == 1)}/{len(ks)}" for name, ks in rounds.items())
hdr = f"""# Seeded changes: what each check reports

Every directory here holds one change to abersheeran/baize written by an independent sub-agent that saw only the text of one
property and a scratch worktree (`patch.diff`, `demo.py` showing the behaviour change through the public API, `meta.json`).
Each was confirmed by `tools/seed.py verify*`: the demo passes on the clean tree and fails with the patch, and the 77 baseline
tests still pass with the patch. None is ever committed in /repo.

`tools/seed.py matrix quick` applies each patch to a scratch worktree of /repo's HEAD (`VERIF_REPO`), runs the property's
**quick** check and writes `RESULTS.json`; this file is generated from it by `tools/mksummary.py`.

Final state: **{det} / {len(R)} detected** (exit 1, VIOLATION line, witness replayed on the unshimmed code) - {per}.
"first result" is what the check said before I touched it (first-pass files: DESIGN.md section 7 for round 1,
`RESULTS-r3-first-pass.json` ... `RESULTS-r6-first-pass.json` for rounds 3 to 6); "added" is what the miss made me add - a recipe, shape or model, never a special
case of the patch. Where the addition goes beyond what the property's quantifier names, or is a concrete recipe rather than a
symbolic family, the entry says so. Patches whose context a later `fix:` commit rewrote were regenerated with the same change
(`meta.json: rebased`).

First-pass detection: round 1 29/40, round 2 33/60 (+10 flagged exit 2), round 3 10/40 (+5 flagged exit 2), round 4 15/40 (+1 flagged exit 2), round 5 18/40 (+3 flagged exit 2), round 6 21/40 (+2 flagged exit 2).

| change | what it does | first result | added to the check | final quick result |
|---|---|---|---|---|
"""
open(os.path.join(SEEDED, "SUMMARY.md"), "w").write(hdr + "\n".join(rows) + "\n")
print(f"{det}/{len(R)} detected; {per}")
