#!/bin/sh
# every check of one tier on /repo itself, with exit codes and the counts that a summary line alone would hide
cd "$(dirname "$0")/.."
TIER=${1:-quick}
for i in 01 02 03 04 05 06 07 08 09 10 11 12 13 14 15 16 17 18 19 20; do
    out=$(./check C$i --tier "$TIER" 2>&1); rc=$?
    echo "C$i rc=$rc harness-errors=$(echo "$out" | grep -c '^HARNESS-ERROR') inconclusive=$(echo "$out" | grep -c '^INCONCLUSIVE') | $(echo "$out" | tail -1 | cut -c1-170)"
done
