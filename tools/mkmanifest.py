#!/usr/bin/env python3
"""Regenerate /verif/MANIFEST.json from the table below (single source of truth) and validate it."""
import json, os, sys
ROOT = os.path.dirname(os.path.dirname(os.path.abspath(__file__)))

LEVEL_TEXT = ("Bounded symbolic execution of the real baize functions (imported from /repo at run time): inputs are SMT "
              "variables, every feasible path inside the stated bounds is explored and the negated property is handed to "
              "z3 on each path; unsat on all paths = holds for every value inside the bounds, sat = concrete "
              "counterexample, replayed on the unshimmed code before it is reported. Not a proof: nothing outside the "
              "bounds written in the evidence file is claimed.")

CHECKS = {
    "C01": dict(
        technique="fork-on-branch symbolic execution of the real multipart decoder / stream helpers / form accessors over symbolic content bytes (z3), chunkings enumerated",
        design_ref="DESIGN.md §4 C01",
        note="Trusted: z3, CPython, forksym proxies and ReShim (every path's model is replayed on the unshimmed code with the real "
             "UploadFile and must agree). Content bytes are solver variables (<=3 quick / <=5 thorough per form); form templates, "
             "boundaries, part names and cut positions are enumerated recipes (incl. multi-byte field text, names with Unicode separators, bare-LF/CR "
             "framing, 40 blanks of transport padding); the stream helpers also get symbolic limits at or above the form's totals."),
    "C02": dict(
        technique="fork-on-branch symbolic execution of the real WSGI/ASGI FileResponse (incl. zero-copy branch) on a symbolic file: size, chunk size and all Range numbers are z3 integers",
        design_ref="DESIGN.md §4 C02",
        note="Trusted: z3, CPython, forksym proxies; the file is an uninterpreted array (reads return (offset,length) slices; no short reads). "
             "Family 'data': all numbers unbounded, <=2/<=3 range specs, chunk loops unwound K=3/4 with unwinding assertion. Family 'framing': "
             "multipart Content-Length digit-exact for sizes <10^4 / <10^6. Recipes: a response object reused for a second request, a subclass overriding "
             "generate_etag, fractional mtimes, concrete 20-digit / zero-padded header texts through the real regex. Every path's model is re-run on a "
             "real temp file with the unshimmed code."),
    "C04": dict(
        technique="differential fork-on-branch symbolic execution: the WSGI and the ASGI implementation run on the same symbolic data on one path and their normalised observations are compared by z3 queries",
        design_ref="DESIGN.md §4 C04",
        note="Trusted: z3, CPython/asyncio, forksym/ReShim and the stubs shared with C02/C05/C07/C08/C09/C14 (identical on both sides). Families: all "
             "non-file response classes, FileResponse on the symbolic file (numbers unbounded, <=2 range specs, raw Range text <=6/<=7 chars), streams run to "
             "completion, header-derived request attributes (values <=3 Latin-1 chars; names from a recipe list), request bodies (<=3 chunks, "
             "symbolic emptiness), Router/Subpaths/Hosts/Files/Pages/conditional requests. Abstract requests have one value per header name; URL/query "
             "parsing uses concrete recipes; forms with 323/324/325 parts, JSON with a byte order mark and a memory limit passed through the _parse_multipart subclass hook are concrete differential recipes."),
    "C05": dict(
        technique="fork-on-branch symbolic execution of every response class on both interfaces against a scripted server with a protocol monitor: status, header/cookie/body/download-name characters and the FAULT POINT (failing send call, raising producer step, early close) are solver variables",
        design_ref="DESIGN.md §4 C05",
        note="Trusted: z3, CPython/asyncio (streaming classes on the virtual loop), forksym/ReShim, the protocol monitor in harness/gw.py. Constructor "
             "header values are assumed printable Latin-1, cookie values Latin-1; download names and redirect targets full Unicode (no lone surrogates). "
             "Texts <=3/<=4 chars (cookie values <=2), streams <=3/<=4 items; also a response object serving a second client after a disconnect, a receive "
             "channel that raises, redirect targets as URL objects, and static apps on real files whose file vanishes at a solver-chosen point. "
             "WSGI SendEventResponse only for complete runs (threads: see C06)."),
    "C06": dict(
        technique="fork-on-branch symbolic execution of the real ASGI streaming responses on a virtual-time asyncio loop: producer/send delays, ping interval and disconnect instant are z3 integers, timer order decided by the solver; sequential WSGI streaming with symbolic close/raise points",
        design_ref="DESIGN.md §4 C06",
        note="PARTIAL CLAIM: the WSGI SendEventResponse relay (real pool thread + queue.Queue) is NOT covered - thread interleavings are not solver "
             "variables (the early-close deadlock the property text describes lives there). Covered: ASGI StreamResponse/SendEventResponse "
             "(1 item general, 3 items with a zero-delay producer; thorough: 2 items + trailing producer delay), WSGI StreamResponse/NextResponse. "
             "Also: pacing on an 8-item backlog, a field-less event mid-stream, a producer object with aclose(). "
             "asyncio's own scheduler code runs for real on a virtual clock; ticks bounded (delays 0..20, ping 1..20, disconnect 0..60)."),
    "C07": dict(
        technique="fork-on-branch symbolic execution of the real static-file path arithmetic and Files/Pages dispatch over a fully symbolic request path (vendored posixpath on proxies, virtual stat tree), against an independently written segment-stack resolver executed symbolically on the same path",
        design_ref="DESIGN.md §4 C07",
        note="Trusted: z3, CPython, forksym; the vendored posixpath and the virtual tree are validated on every path by re-running the unshimmed "
             "code on real files in a temp directory. One fixed tree with '..name', an index-less directory, a sibling whose name extends the "
             "directory's, '<dir>.html', a unix socket and a symbolic link to an empty directory outside; directory given absolute or relative with a "
             "later chdir; Pages also mounted below a prefix (symbolic jobs with a URL stand-in, plus 40 concrete mount/path recipes on the real URL class); handle_404 configured. WSGI paths are given in their PEP 3333 presentation (UTF-8 bytes shown as latin-1; ASCII only beyond 2 free characters on WSGI). Paths: <=5/<=7 free chars plus '/../'+<=6, <=3+'/index.html', <=4+'.html'. "
             "'<file>/' may be served or 404 (the statement allows both)."),
    "C08": dict(
        technique="z3 regex-language lemmas on the live convertor patterns; fork-on-branch symbolic execution of the real Route/Router over fully symbolic paths (ReShim) against a first-match oracle built from the statement's type languages; decided arithmetic for int/date/decimal conversion and round trip",
        design_ref="DESIGN.md §4 C08",
        note="Trusted: z3 (sequence/regex theory for the lemmas and short-path cross-check), CPython, forksym/ReShim, the text/integer models of "
             "Decimal, date and UUID (each path's model is re-run on the unshimmed code). Route tables are recipes (also mounted, nested, serving the same path twice, environ without PATH_INFO); paths <=8/<=9 "
             "symbolic chars (<= U+2FFFF) plus a 10-char date/decimal segment; int <=6/<=7 digits; decimals <=4+4 digits (plus 30-digit shapes). A date placeholder is taken to "
             "stand only for text that denotes a calendar date."),
    "C09": dict(
        technique="fork-on-branch symbolic execution of the real Subpaths/Hosts dispatch over symbolic characters (z3), oracle as z3 formulas / z3 regex-language membership",
        design_ref="DESIGN.md §4 C09",
        note="Trusted: z3 (incl. its sequence/regex theory for the host oracle), CPython, forksym + ReShim. String lengths, table sizes (2 entries), "
             "nesting depth and the host pattern tables (8, incl. capturing groups) are enumerated; all characters are solver variables (paths full Unicode, "
             "Host Latin-1; Host may be empty or absent). Mount jobs also run after an earlier request on the same routing object."),
    "C10": dict(
        technique="fork-on-branch symbolic execution of the real ASGI Request accessors on a virtual-time asyncio loop (message count, empty messages, disconnect position, receive delays and task start offsets decided by z3) and of the WSGI accessors with a symbolic chunk count",
        design_ref="DESIGN.md §4 C10",
        note="Trusted: z3, CPython/asyncio (real scheduler on a virtual clock), forksym. Body bytes are fixed order-revealing markers (the "
             "accessors never inspect them); <=3 messages, delays 0..30 ticks, 2 (quick) / 3 (thorough) concurrent awaiters; access programs "
             "are an enumerated list over body/stream/json/form/close, plus two concurrent readers, a multipart form over several messages, small-chunk "
             "replay, and is_disconnected() polled while no message is ready (sub-tick timeout modelled as half a tick)."),
    "C11": dict(
        technique="fork-on-branch symbolic execution of the real WebSocket wrapper: one inductive step from every (client,application) state pair plus bounded histories, state/call/event choices decided by z3, payloads symbolic",
        design_ref="DESIGN.md §4 C11",
        note="Trusted: z3, CPython, forksym. Step family assumes the invariant tying the two state fields to what was forwarded/delivered "
             "(all 9 pairs are reachable through raw receive()/send(); each counterexample is confirmed by such a public-API history). "
             "Histories from the initial state: <=3 / <=4 calls, <=2 / <=3 frames. Server send() never fails. Beyond sequences: five two-task programs on "
             "the virtual loop (suspending server send), an iterator resumed after close, the websocket_session shortcut with failing views."),
    "C13": dict(
        technique="fork-on-branch symbolic execution of the real header mapping (one inductive step per mutator), cookie escaper (live translation table as ITE terms, live regex via ReShim) and redirect encoding over symbolic Unicode characters; z3 decides every character",
        design_ref="DESIGN.md §4 C13",
        note="Trusted: z3, CPython, forksym/ReShim. Header family: pre-state = clean mapping with 0..1 symbolic entries (induction hypothesis), "
             "names/values <=2/<=3 chars (also behind 40..240-char concrete texts; emitted lines checked as text and bytes). Cookie names <=2/<=3, values <=3/<=4 chars, full Unicode. Redirect: urllib.parse.quote is replaced by a "
             "percent-encoding model that takes baize's real `safe` argument and is validated against the real quote on every path; targets as str and "
             "as URL object. update() with Headers objects, re-assigned cookie attributes and delete_cookie(name) are covered."),
    "C14": dict(
        technique="fork-on-branch symbolic execution of the real Files/Pages conditional-request path over histories on a symbolic file clock: creation/modification/request instants (ms) and sizes are z3 integers, validators flow between requests as canonical tokens",
        design_ref="DESIGN.md §4 C14",
        note="Trusted: z3, CPython, forksym; formatdate/parsedate are replaced by an inverse pair at one-second granularity, SHA-1 is the real one on "
             "canonical token text (collision freedom assumed); every path's model is replayed on real files with an emulated stat clock. Histories "
             "with one and two modifications (thorough: three; validators from any earlier response); ops none/touch/rewrite same size/rewrite other size/replace keeping "
             "an older mtime; 13 validator forms; the process time zone is a solver variable behind parsedate/mktime stand-ins; SHA-1 input with two rendered "
             "numbers back to back is reported as unsupported (token abstraction). One known finding (date-only validator, same-second rewrite) is listed in known_findings.json."),
    "C15": dict(
        technique="fork-on-branch symbolic execution of the real multipart stream helpers with SYMBOLIC limits (all limit values decided at once per form/chunking) and of the decoder's hold-back on symbolic part content, z3",
        design_ref="DESIGN.md §4 C15",
        note="Trusted: z3, CPython, forksym/ReShim (each path replayed on the unshimmed code). Forms (part kinds/sizes) and chunkings are enumerated; "
             "both limits are unbounded z3 integers (memory limit also None). Buffer family: 1-3 leading bytes over 0..255, then 24 (40) symbolic "
             "non-line-break bytes, chunk sizes 1/3/8 (1/2/3/8/16), also with the boundary text mentioned inside the content and delimiter look-alike lines; "
             "bound = chunk + delimiter + 4. One known finding (blanks after a look-alike are held back) is listed in known_findings.json."),
    "C16": dict(
        technique="fork-on-branch symbolic execution: response-side cookie quoting fed into the real request-side parser (incl. stdlib _unquote run on proxies) over all 0..255 value characters; expiry with symbolic now/expires/max-age and a symbolic UTC offset",
        design_ref="DESIGN.md §4 C16",
        note="Trusted: z3, CPython, forksym/ReShim; the datetime model (naive local datetimes print timestamp+offset, UTC ones the timestamp) - each "
             "expiry counterexample is replayed in a subprocess under a concrete TZ (fixed offset, or a generated POSIX DST rule: DST zones are a two-valued "
             "uninterpreted offset function, |expires| <= 150 days). Values <=3/<=4 chars plus backslash shapes, names 1-2 token chars; the line also taken from what a response called as an application (bare / behind one middleware) hands to the server."),
    "C17": dict(
        technique="fork-on-branch symbolic execution of the real (Mutable)MultiMapping/QueryParams/FormData with z3 integer keys and values inside CPython's dict; one inductive step per operation against a list-of-pairs reference model",
        design_ref="DESIGN.md §4 C17",
        note="Trusted: z3, CPython dict/list, forksym. Pre-states are all pair lists up to the stated length (every reachable state is one); "
             "keys/values are unbounded integers (code is type-agnostic); None values, sibling mappings and the caller's list are checked for <=3 pairs. "
             "QueryParams(str(q)) == q over symbolic texts (<=3 chars, <=3 pairs) with urlencode/parse_qsl unmodified; 999..5000 pairs as a concrete recipe."),
    "C19": dict(
        technique="fork-on-branch symbolic execution of the real SSE encoder over symbolic Unicode text, decoded by a symbolically executed WHATWG event-stream parser; equality decided by z3",
        design_ref="DESIGN.md §4 C19",
        note="Trusted: z3, CPython codecs, forksym; the WHATWG parser oracle written in the harness. Symbolic characters cross the encoder's "
             "f-strings as placeholders of the same encoding class (ASCII / non-ASCII), which is sound while the encoder only concatenates and "
             "encodes them. Bounds: data <=3/<=5 chars plus 12- and 300-line shapes, name/id <=2/<=3; charsets utf-8 and latin-1; ASGI streams with a "
             "producer idling symbolic ticks (0..3 pings in between); a WSGI response object serving a second request (complete runs)."),
    "C03": dict(
        technique="fork-on-branch symbolic execution of the real parse_range with z3 (unbounded LIA integers; ReShim-interpreted regex over symbolic Latin-1 chars)",
        design_ref="DESIGN.md §4 C03",
        note="Trusted: z3, CPython, the forksym proxies and ReShim (validated on every path against the unshimmed "
             "function). Layer ints assumes syntactically well-formed range sets (<=3/<=4 specs) with unbounded values; "
             "text layers bound the header length (plus zero-padded 21/40-character numbers and the interpreter digit limit off); a hand-over layer sends "
             "symbolic header bytes through the real FileResponse of both stacks. Environment stubs are listed in the evidence file."),
}

CHECKS["C20"] = dict(
    technique="differential fork-on-branch symbolic execution: bare application vs the same application behind 1..3 identity / header-editing middlewares or view decorators on one path, outputs compared by z3; inner-call counter",
    design_ref="DESIGN.md §4 C20",
    note="Trusted: z3, CPython/asyncio (ASGI on the virtual loop, thread pool = direct call), forksym. Inner applications are a recipe list (every response "
         "class, multi-chunk stream, 1-2 cookies, restart of start_response, raising app); status, a header value, cookie value and body bytes are symbolic "
         "(<=3/<=4 chars), stacks of depth 1..3; body sizes around the relay's 64 KiB block are enumerated; plain-WSGI list/tuple bodies, raw ASGI events with optional keys "
         "omitted, a FileResponse behind a zero-copy server, two overlapping ASGI requests through one middleware instance; the relay's zero-copy reader on a "
         "symbolic window (file size / position / offset / count <= 300000, <=2 short reads).")

CHECKS["C12"] = dict(
    technique="fork-on-branch symbolic execution of each untrusted-input entry point over short fully symbolic Latin-1 text / byte strings (exact symbolic UTF-8 decoding, URL-sensitive code points materialised for urllib); any exception other than 4xx HTTPException / ClientDisconnect / stream-consumed is a violation",
    design_ref="DESIGN.md §4 C12",
    note="Trusted: z3, CPython, forksym/ReShim. Inputs <=2/<=3 chars (<=3/<=4 body bytes). json.loads on decoded symbolic text is modelled as 'value or "
         "JSONDecodeError'; request bodies are preset (assembly is C10). Date-like headers (Date, If-Modified-Since) and length-triggered failures (digit "
         "limits, NAME_MAX, recursion depth, >1000 fields, special codecs) are CONCRETE recipes (sampling, stated in the evidence). Range / router / "
         "static-file input: slices of the C03 / C08 / C07 jobs are re-run and their 'unrelated exception escapes' verdicts kept.")
CHECKS["C18"] = dict(
    technique="fork-on-branch symbolic execution of URL construction / replace / query helpers / repr with symbolic component text and ports: URL-sensitive code points are materialised by solver-decided forks, all others travel as placeholders through the unmodified urllib.parse",
    design_ref="DESIGN.md §4 C18",
    note="Trusted: z3, CPython incl. urllib.parse (runs unmodified), forksym. Component texts <=2/<=3 chars of printable ASCII (host chars from a small "
         "alphabet), ports symbolic; schemes, presence of server/Host/root/query, 9 base-URL shapes (incl. empty port) and the replaced subsets are "
         "enumerated; repr with invalid ports; helper calls after earlier helper calls. One known "
         "finding (decoded '?'/'#' in the path) is listed in known_findings.json.")

NOT_YET = {}  # pid -> reason (filled while the framework is being built)
NOT_APPLICABLE = {}


def main():
    props = [json.loads(l) for l in open(os.path.join(ROOT, "properties.jsonl"))]
    ids = [p["id"] for p in props]
    checks = []
    for pid in ids:
        if pid not in CHECKS:
            continue
        c = CHECKS[pid]
        checks.append({
            "property_id": pid,
            "quick_cmd": f"./check {pid} --tier quick",
            "thorough_cmd": f"./check {pid} --tier thorough",
            "evidence_file": f"/verif/evidence/{pid}.json",
            "replay_cmd_template": f"./check {pid} --replay {{path}}",
            "engine": c.get("engine", "forksym"),
            "level_claimed": {"category": "model_checking", "text": c.get("level_text", LEVEL_TEXT), "design_ref": c["design_ref"]},
            "level_note": c["note"],
            "technique": c["technique"],
        })
    na = []
    for pid in ids:
        if pid in CHECKS:
            continue
        reason = NOT_APPLICABLE.get(pid) or NOT_YET.get(pid) or "check not built yet in this round (planned in DESIGN.md §4); not claimed until it exists"
        na.append({"property_id": pid, "reason": reason})
    man = {
        "version": 1,
        "setup_cmd": "./setup.sh",
        "hooks": {
            "guard": "BAIZE_VERIF",
            "enable": "none needed: harnesses inject module-global names at run time; /repo carries no hook code",
            "baseline_off_cmd": "cd /repo && /venv/bin/python -m pytest -ra -q -p no:cacheprovider --timeout=900 --continue-on-collection-errors",
            "source_commits": [],
            "add_only": True,
        },
        "engines": [
            {"name": "forksym", "path": "/verif/engine", "serves_properties": sorted(CHECKS),
             "kind_free_text": "own fork-on-branch symbolic executor (z3 proxies, incremental push/pop, stateless re-execution) running the real baize code; CrossHair 0.0.110 and direct z3 regex/table lemmas where stated per check"},
        ],
        "checks": checks,
        "not_applicable": na,
        "notes": "All checks run ./setup.sh themselves (overlay venv from the offline wheelhouse). Exit 2 is reserved for harness errors (non-reproducing counterexample, vacuous harness).",
    }
    with open(os.path.join(ROOT, "MANIFEST.json"), "w") as f:
        json.dump(man, f, indent=1)
    try:
        import jsonschema
        jsonschema.validate(man, json.load(open("/root/.vp/MANIFEST.schema.json")))
        for c in checks:
            ev = c["evidence_file"]
            if os.path.exists(ev):
                jsonschema.validate(json.load(open(ev)), json.load(open("/root/.vp/EVIDENCE.schema.json")))
        print("MANIFEST.json valid;", len(checks), "checks,", len(na), "not claimed")
    except ImportError:
        print("jsonschema unavailable; wrote without validation")


if __name__ == "__main__":
    main()
