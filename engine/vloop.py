"""Virtual-time asyncio event loop: time is an integer tick count that may be symbolic
(SInt).  Timers sit in asyncio's own heap; their ordering is decided by the solver through
SInt comparisons, so "which timer fires first" becomes a fork over symbolic delays.

Gotchas baked in (measured): _clock_resolution must be >= 1 tick; symbolic delays need an
upper bound below MAXIMUM_SELECT_TIMEOUT or min(timeout, MAX) forks forever.
"""
from __future__ import annotations

import asyncio
import logging
import warnings
from typing import Any, Callable, List

from .forksym import SInt, lift


logging.getLogger("asyncio").setLevel(logging.CRITICAL)
warnings.filterwarnings("ignore", category=RuntimeWarning, message="coroutine .* was never awaited")


class DeadlockError(RuntimeError):
    """The loop would block forever: nothing ready, no timer, main future not done."""


class _FakeSelector:
    def __init__(self, loop):
        self.loop = loop

    def select(self, timeout=None):
        if timeout is None:
            raise DeadlockError("virtual loop would block forever (deadlock)")
        if isinstance(timeout, SInt) or timeout > 0:
            self.loop._vnow = self.loop._vnow + timeout
        return []

    def close(self):
        pass

    def register(self, *a, **k):
        pass

    def unregister(self, *a, **k):
        pass

    def get_map(self):
        return {}


class VLoop(asyncio.BaseEventLoop):
    def __init__(self):
        super().__init__()
        self._vnow: Any = 0
        self._selector = _FakeSelector(self)
        self._clock_resolution = 1
        self.executor_calls: List[Callable] = []
        self.unhandled: List[dict] = []
        self.set_exception_handler(lambda loop, ctx: loop.unhandled.append(ctx))

    def time(self):
        return self._vnow

    def _process_events(self, evs):
        pass

    def _write_to_self(self):
        pass

    def run_in_executor(self, executor, func, *args):
        """Thread pool replaced by a direct call completing on the next loop iteration."""
        fut = self.create_future()
        self.executor_calls.append(func)

        def run():
            if fut.cancelled():
                return
            try:
                fut.set_result(func(*args))
            except Exception as e:  # noqa: BLE001
                fut.set_exception(e)

        self.call_soon(run)
        return fut


def run(coro_fn, *a, **k):
    """Run coro_fn(*a) to completion on a fresh virtual loop; returns its result."""
    loop = VLoop()
    asyncio.set_event_loop(None)
    try:
        return loop.run_until_complete(coro_fn(*a, **k))
    finally:
        try:
            loop.close()
        except Exception:  # noqa: BLE001
            pass


def drive(coro):
    """Run a coroutine that never really suspends (all awaits complete synchronously)."""
    try:
        coro.send(None)
    except StopIteration as e:
        return e.value
    coro.close()
    raise RuntimeError("coroutine suspended in drive()")
