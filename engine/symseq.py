"""Symbolic bytes / str stand-ins with *concrete length* and items that are ints or SInt.

SBytes behaves like bytes/bytearray, SStr like str, for the operations the baize code
under test performs.  Results that are fully concrete are returned as real bytes/str so
that the rest of the code runs natively.  Anything not modelled raises Unsupported (the
path is then inconclusive, never a pass).
"""
from __future__ import annotations

import builtins
from typing import Any, Iterable, List, Optional

import z3

from .forksym import (SBool, SInt, Unsupported, _mkbool, all_of, any_of, cur, ite,
                      lift, term_of)

_int = builtins.int
_str = builtins.str
_bytes = builtins.bytes
_bytearray = builtins.bytearray
_isinstance = builtins.isinstance

STR_LINESEPS = (0x0A, 0x0D, 0x0B, 0x0C, 0x1C, 0x1D, 0x1E, 0x85, 0x2028, 0x2029)
BYTES_WS = (9, 10, 11, 12, 13, 32)
# str.isspace() code points (full Unicode, CPython 3.12)
STR_WS = tuple(c for c in range(0x3001) if chr(c).isspace())


def _items_of(x) -> Optional[List[Any]]:
    if _isinstance(x, SSeq):
        return x.items
    if _isinstance(x, (_bytes, _bytearray)):
        return list(x)
    if _isinstance(x, _str):
        return [ord(c) for c in x]
    if _isinstance(x, (list, tuple)):
        return list(x)
    return None


def item_eq(a, b):
    if _isinstance(a, SInt):
        return a == b
    if _isinstance(b, SInt):
        return b == a
    return a == b


def in_set(c, values: Iterable[int]):
    """membership of an item in a finite code-point set, as ONE disjunction."""
    values = list(values)
    if not _isinstance(c, SInt):
        return c in values
    return _mkbool(z3.Or([c.e == v for v in values])) if values else False


def in_range(c, lo: int, hi: int):
    if not _isinstance(c, SInt):
        return lo <= c <= hi
    return _mkbool(z3.And(c.e >= lo, c.e <= hi))


class SSeq:
    KIND = "?"
    __slots__ = ("items",)
    # NORMALIZE: derived values that are fully concrete become real bytes/str (default). Harnesses whose
    # code under test calls real-str methods with proxy arguments (e.g. path.startswith(prefix)) switch it off.
    NORMALIZE = True
    # CONST_HASH: every SStr/SBytes hashes to 0 so that CPython's dict compares keys through __eq__ (a solver-decided fork).
    # Only sound when ALL keys of the dicts involved are proxies (a real str key hashes differently and would never be compared).
    CONST_HASH = False

    def __init__(self, items=()):
        its = _items_of(items)
        self.items = list(items) if its is None else list(its)

    # ---- construction helpers
    @classmethod
    def of(cls, x):
        return cls(_items_of(x))

    @classmethod
    def fresh(cls, n: int, name: str, lo: int = 0, hi: int = 255, solver=None) -> "SSeq":
        """n fresh symbolic items named name0..; domain constraints go to `solver`
        (base constraints) or are assumed on the current path."""
        out = []
        for i in range(n):
            v = z3.Int(f"{name}{i}")
            if solver is not None:
                solver.add(v >= lo, v <= hi)
            else:
                cur().assume(z3.And(v >= lo, v <= hi))
            out.append(SInt(v))
        return cls(out)

    def _new(self, items):
        return type(self)(items)

    def _norm(self, items):
        """A derived value: real bytes/str when fully concrete."""
        if SSeq.NORMALIZE and all(not _isinstance(i, SInt) for i in items):
            return self._real(items)
        return self._new(items)

    def concrete(self) -> bool:
        return all(not _isinstance(i, SInt) for i in self.items)

    def real(self):
        if not self.concrete():
            raise cur()._raise(Unsupported("real value of symbolic sequence required"))
        return self._real(self.items)

    def _coerce(self, o) -> List[Any]:
        its = _items_of(o)
        if its is None:
            raise TypeError(f"cannot use {type(o).__name__} with {type(self).__name__}")
        return its

    # ---- basic protocol
    def __len__(self):
        return len(self.items)

    def __bool__(self):
        return bool(self.items)

    def __iter__(self):
        for i in self.items:
            yield self._elem(i)

    def __getitem__(self, k):
        if _isinstance(k, slice):
            return self._norm(self.items[k])
        if _isinstance(k, SInt):
            k = k._unique()
        return self._elem(self.items[k])

    def __add__(self, o):
        its = _items_of(o)
        if its is None:
            return NotImplemented
        return self._norm(self.items + its)

    def __radd__(self, o):
        its = _items_of(o)
        if its is None:
            return NotImplemented
        return self._norm(its + self.items)

    def __mul__(self, n):
        return self._norm(self.items * n)

    def _eq_term(self, o):
        its = _items_of(o)
        if its is None or len(its) != len(self.items):
            return False
        return all_of(item_eq(a, b) for a, b in zip(self.items, its))

    def __eq__(self, o):
        if _isinstance(o, SSeq) and o.KIND != self.KIND:
            return False
        if _isinstance(o, _str) and self.KIND != "s":
            return False
        if _isinstance(o, (_bytes, _bytearray)) and self.KIND != "b":
            return False
        return self._eq_term(o)

    def __ne__(self, o):
        r = self.__eq__(o)
        if _isinstance(r, SBool):
            return ~r
        return not r

    def __hash__(self):
        if SSeq.CONST_HASH:
            return 0
        if self.concrete():
            return hash(self._real(self.items))
        raise cur()._raise(Unsupported("hash of a symbolic sequence (dict/set key)"))

    def __repr__(self):
        return f"{type(self).__name__}({self.items!r})"

    def __lt__(self, o):
        raise cur()._raise(Unsupported("ordering of symbolic sequences"))

    __gt__ = __le__ = __ge__ = __lt__

    # ---- searching
    def _at(self, i: int, sub: List[Any]):
        if i < 0 or i + len(sub) > len(self.items):
            return False
        return all_of(item_eq(self.items[i + j], c) for j, c in enumerate(sub))

    def _rng(self, start, end):
        n = len(self.items)
        if start is None:
            start = 0
        if end is None:
            end = n
        if start < 0:
            start = builtins.max(0, n + start)
        if end < 0:
            end = builtins.max(0, n + end)
        return start, builtins.min(end, n)

    def find(self, sub, start=None, end=None) -> int:
        sub = self._coerce(sub)
        start, end = self._rng(start, end)
        for i in range(start, end - len(sub) + 1):
            if self._at(i, sub):
                return i
        return -1

    def rfind(self, sub, start=None, end=None) -> int:
        sub = self._coerce(sub)
        start, end = self._rng(start, end)
        for i in range(end - len(sub), start - 1, -1):
            if self._at(i, sub):
                return i
        return -1

    def index(self, sub, start=None, end=None) -> int:
        r = self.find(sub, start, end)
        if r < 0:
            raise ValueError("subsection not found")
        return r

    def rindex(self, sub, start=None, end=None) -> int:
        r = self.rfind(sub, start, end)
        if r < 0:
            raise ValueError("subsection not found")
        return r

    def __contains__(self, sub):
        if _isinstance(sub, (_int, SInt)) and self.KIND == "b":
            return bool(any_of(item_eq(i, sub) for i in self.items))
        return self.find(sub) != -1

    def count(self, sub, start=None, end=None) -> int:
        sub = self._coerce(sub)
        start, end = self._rng(start, end)
        n = 0
        i = start
        if not sub:
            return end - start + 1
        while i <= end - len(sub):
            if self._at(i, sub):
                n += 1
                i += len(sub)
            else:
                i += 1
        return n

    def startswith(self, p, start=None, end=None) -> bool:
        if _isinstance(p, tuple):
            return any(self.startswith(q, start, end) for q in p)
        p = self._coerce(p)
        start, end = self._rng(start, end)
        if start + len(p) > end:
            return False
        return bool(self._at(start, p))

    def endswith(self, p, start=None, end=None) -> bool:
        if _isinstance(p, tuple):
            return any(self.endswith(q, start, end) for q in p)
        p = self._coerce(p)
        start, end = self._rng(start, end)
        if end - len(p) < start:
            return False
        return bool(self._at(end - len(p), p))

    # ---- splitting
    def split(self, sep=None, maxsplit=-1):
        if sep is None:
            return self._split_ws(maxsplit)
        sep = self._coerce(sep)
        if not sep:
            raise ValueError("empty separator")
        out = []
        i = 0
        last = 0
        n = len(self.items)
        while i <= n - len(sep) and (maxsplit < 0 or len(out) < maxsplit):
            if self._at(i, sep):
                out.append(self._norm(self.items[last:i]))
                i += len(sep)
                last = i
            else:
                i += 1
        out.append(self._norm(self.items[last:]))
        return out

    def rsplit(self, sep=None, maxsplit=-1):
        if sep is None:
            raise cur()._raise(Unsupported("rsplit on whitespace"))
        sep = self._coerce(sep)
        out = []
        n = len(self.items)
        i = n - len(sep)
        last = n
        while i >= 0 and (maxsplit < 0 or len(out) < maxsplit):
            if self._at(i, sep):
                out.append(self._norm(self.items[i + len(sep):last]))
                last = i
                i -= len(sep)
            else:
                i -= 1
        out.append(self._norm(self.items[:last]))
        out.reverse()
        return out

    def _split_ws(self, maxsplit):
        out = []
        curp: List[Any] = []
        for idx, c in enumerate(self.items):
            if self._is_ws(c):
                if curp:
                    out.append(self._norm(curp))
                    curp = []
                    if 0 <= maxsplit == len(out):
                        rest = self._new(self.items[idx:]).lstrip()
                        if len(rest):
                            out.append(rest)
                        return out
            else:
                curp.append(c)
        if curp:
            out.append(self._norm(curp))
        return out

    def partition(self, sep):
        sepi = self._coerce(sep)
        i = self.find(sepi)
        if i < 0:
            return self._norm(self.items), self._real([]), self._real([])
        return self._norm(self.items[:i]), self._real(sepi) if all(
            not _isinstance(x, SInt) for x in sepi) else self._new(sepi), self._norm(self.items[i + len(sepi):])

    def rpartition(self, sep):
        sepi = self._coerce(sep)
        i = self.rfind(sepi)
        if i < 0:
            return self._real([]), self._real([]), self._norm(self.items)
        return self._norm(self.items[:i]), self._real(sepi) if all(
            not _isinstance(x, SInt) for x in sepi) else self._new(sepi), self._norm(self.items[i + len(sepi):])

    def _is_ws(self, c):
        return bool(in_set(c, self.WS))

    def strip(self, chars=None):
        return self._strip(chars, True, True)

    def lstrip(self, chars=None):
        return self._strip(chars, True, False)

    def rstrip(self, chars=None):
        return self._strip(chars, False, True)

    def _strip(self, chars, left, right):
        cs = self.WS if chars is None else self._coerce(chars)
        a, b = 0, len(self.items)
        if left:
            while a < b and in_set(self.items[a], cs):
                a += 1
        if right:
            while b > a and in_set(self.items[b - 1], cs):
                b -= 1
        return self._norm(self.items[a:b])

    def replace(self, old, new, count=-1):
        old = self._coerce(old)
        new = self._coerce(new)
        if not old:
            raise cur()._raise(Unsupported("replace with empty pattern"))
        out: List[Any] = []
        i = 0
        n = len(self.items)
        done = 0
        while i < n:
            if (count < 0 or done < count) and i <= n - len(old) and self._at(i, old):
                out.extend(new)
                i += len(old)
                done += 1
            else:
                out.append(self.items[i])
                i += 1
        return self._norm(out)

    def join(self, parts):
        out: List[Any] = []
        first = True
        for p in parts:
            if not first:
                out.extend(self.items)
            out.extend(self._coerce(p))
            first = False
        return self._norm(out)

    # ---- case (ASCII + Latin-1 exact; beyond Latin-1 unsupported)
    def _case(self, lower: bool):
        out = []
        for c in self.items:
            if not _isinstance(c, SInt):
                out.append(c)
                continue
            if self.KIND == "s" and not (c <= 0xFF):
                raise cur()._raise(Unsupported("case mapping beyond Latin-1"))
            if lower:
                cond = z3.Or(z3.And(c.e >= 65, c.e <= 90)) if self.KIND == "b" else z3.Or(
                    z3.And(c.e >= 65, c.e <= 90), z3.And(c.e >= 0xC0, c.e <= 0xDE, c.e != 0xD7))
                out.append(SInt(z3.simplify(z3.If(cond, c.e + 32, c.e))))
            else:
                if self.KIND == "s":
                    # µ ß ÿ have upper forms outside the simple +-32 rule
                    if in_set(c, (0xB5, 0xDF, 0xFF)):
                        raise cur()._raise(Unsupported("upper() of µ/ß/ÿ"))
                    cond = z3.Or(z3.And(c.e >= 97, c.e <= 122),
                                 z3.And(c.e >= 0xE0, c.e <= 0xFE, c.e != 0xF7))
                else:
                    cond = z3.And(c.e >= 97, c.e <= 122)
                out.append(SInt(z3.simplify(z3.If(cond, c.e - 32, c.e))))
        if self.concrete():
            r = self._real(self.items)
            return r.lower() if lower else r.upper()
        return self._new(out)

    def lower(self):
        return self._case(True)

    def upper(self):
        return self._case(False)


class SBytes(SSeq):
    KIND = "b"
    WS = BYTES_WS
    __slots__ = ()

    @staticmethod
    def _real(items):
        return _bytes(items)

    def _elem(self, i):
        return i

    # bytearray mutators
    def extend(self, o):
        self.items.extend(self._coerce(o))

    def append(self, i):
        self.items.append(i)

    def clear(self):
        self.items.clear()

    def __delitem__(self, k):
        del self.items[k]

    def __setitem__(self, k, v):
        if _isinstance(k, slice):
            self.items[k] = self._coerce(v)
        else:
            self.items[k] = v

    def __iadd__(self, o):
        self.items.extend(self._coerce(o))
        return self

    def splitlines(self, keepends=False):
        return _splitlines(self, (10, 13), keepends)

    def decode(self, encoding="utf-8", errors="strict"):
        enc = encoding.lower().replace("_", "-")
        if self.concrete():
            return _bytes(self.items).decode(encoding, errors)
        if enc in ("latin-1", "latin1", "iso-8859-1", "l1"):
            return SStr(self.items)
        if enc in ("ascii", "us-ascii"):
            for pos, c in enumerate(self.items):
                if not in_range(c, 0, 127):
                    raise UnicodeDecodeError("ascii", b"\xff", 0, 1, "ordinal not in range(128)")
            return SStr(self.items)
        if enc in ("utf-8", "utf8", "u8", "utf"):
            return SStr(_utf8_decode(self.items, errors))
        import codecs
        codecs.lookup(encoding)  # LookupError as the real thing
        raise cur()._raise(Unsupported(f"decode({encoding}) of symbolic bytes"))

    def hex(self):
        return self.real().hex()


class SStr(SSeq):
    KIND = "s"
    WS = STR_WS
    __slots__ = ()

    @staticmethod
    def _real(items):
        return "".join(map(chr, items))

    def _elem(self, i):
        return SStr([i]) if _isinstance(i, SInt) else chr(i)

    def splitlines(self, keepends=False):
        return _splitlines(self, STR_LINESEPS, keepends)

    def encode(self, encoding="utf-8", errors="strict"):
        enc = encoding.lower().replace("_", "-")
        if self.concrete():
            return self.real().encode(encoding, errors)
        if enc in ("latin-1", "latin1", "iso-8859-1", "l1"):
            lim = 255
        elif enc in ("utf-8", "utf8", "ascii", "us-ascii"):
            lim = 127
        else:
            raise cur()._raise(Unsupported(f"encode({encoding}) of symbolic str"))
        if enc in ("utf-8", "utf8"):
            return self._encode_utf8(errors)
        for c in self.items:
            if not in_range(c, 0, lim):
                raise UnicodeEncodeError(enc, "￿", 0, 1, "ordinal not in range")
        return SBytes(self.items)

    def _encode_utf8(self, errors):
        """exact UTF-8 encoder over symbolic code points: one fork per character on its length class (1..4 bytes,
        lone surrogate), the bytes are div/mod terms of the code point"""
        out: List[Any] = []
        for pos, c in enumerate(self.items):
            if not _isinstance(c, SInt):
                out.extend(chr(c).encode("utf-8", errors))
                continue
            t = c.e
            if in_range(c, 0, 0x7F):
                out.append(c)
            elif in_range(c, 0x80, 0x7FF):
                out.extend((SInt(0xC0 + t / 64), SInt(0x80 + t % 64)))
            elif in_range(c, 0xD800, 0xDFFF):
                if errors != "strict":
                    raise cur()._raise(Unsupported(f"utf-8 encoding of a symbolic surrogate with errors={errors!r}"))
                raise UnicodeEncodeError("utf-8", "\ud800", 0, 1, "surrogates not allowed")
            elif in_range(c, 0x800, 0xFFFF):
                out.extend((SInt(0xE0 + t / 4096), SInt(0x80 + (t / 64) % 64), SInt(0x80 + t % 64)))
            else:
                out.extend((SInt(0xF0 + t / 262144), SInt(0x80 + (t / 4096) % 64), SInt(0x80 + (t / 64) % 64), SInt(0x80 + t % 64)))
        return SBytes(out)

    _TR_CACHE: dict = {}

    def translate(self, table):
        """str.translate with a dict {code point: str}; one merged fork per output length.
        ITE terms per (table, character term) are cached across paths (building them dominates otherwise)."""
        import collections
        tkey = id(table)
        tc = SStr._TR_CACHE.setdefault(tkey, {"by_len": None, "terms": {}, "table": table})
        if tc["by_len"] is None:
            by_len = collections.defaultdict(list)
            for k, v in table.items():
                if v is None:
                    v = ""
                if _isinstance(v, _int):
                    v = chr(v)
                by_len[len(v)].append((k, v))
            tc["by_len"] = sorted(by_len.items())
        out: List[Any] = []
        for c in self.items:
            if not _isinstance(c, SInt):
                r = table.get(c, chr(c))
                r = "" if r is None else (chr(r) if _isinstance(r, _int) else r)
                out.extend(ord(x) for x in r)
                continue
            done = False
            for ln, kvs in tc["by_len"]:
                ck = (c.e.get_id(), ln)
                ent = tc["terms"].get(ck)
                if ent is None:
                    member = _mkbool(z3.Or([c.e == k for k, _ in kvs]))
                    terms = []
                    for j in range(ln):
                        t = z3.IntVal(0)
                        for k, v in kvs:
                            t = z3.If(c.e == k, z3.IntVal(ord(v[j])), t)
                        terms.append(z3.simplify(t))
                    ent = tc["terms"][ck] = (member, terms, c.e)
                member, terms, _keep = ent
                if member if _isinstance(member, bool) else bool(member):
                    out.extend(SInt(t) for t in terms)
                    done = True
                    break
            if not done:
                out.append(c)
        return self._norm(out)

    # predicates (exact on Latin-1; beyond that only where the class is finite)
    def _allcls(self, pred):
        if not self.items:
            return False
        for c in self.items:
            if _isinstance(c, SInt):
                if not (c <= 0xFF):
                    raise cur()._raise(Unsupported("character class beyond Latin-1"))
                if not in_set(c, [k for k in range(256) if pred(chr(k))]):
                    return False
            elif not pred(chr(c)):
                return False
        return True

    def isdigit(self):
        return self._allcls(_str.isdigit)

    def isdecimal(self):
        return self._allcls(_str.isdecimal)

    def isspace(self):
        return self._allcls(_str.isspace)

    def isalnum(self):
        return self._allcls(_str.isalnum)

    def isascii(self):
        return all(bool(in_range(c, 0, 127)) for c in self.items)

    # real-str boundary: placeholders that survive f-strings / join / encode('utf-8')
    def __str__(self):
        e = cur()
        return "".join(e.render_char(c.e) if _isinstance(c, SInt) else chr(c) for c in self.items)

    def __format__(self, spec):
        if spec:
            raise cur()._raise(Unsupported(f"format spec {spec!r} on SStr"))
        return self.__str__()

    def format_map(self, *a, **k):
        return self.real().format_map(*a, **k)


def _utf8_decode(items, errors="strict"):
    """exact UTF-8 decoding of a byte item list; forks on the class of every symbolic byte; code points are computed terms"""
    out: List[Any] = []
    i = 0
    n = len(items)

    class _Replace(Exception):
        pass

    def bad(pos):
        if errors == "strict":
            raise UnicodeDecodeError("utf-8", b"\xff", 0, 1, "invalid start byte / continuation")
        if errors == "replace":
            raise _Replace()
        if errors == "ignore":
            raise _Replace()
        raise cur()._raise(Unsupported(f"utf-8 decoding with errors={errors!r} of invalid symbolic bytes"))

    def cont(pos, lo=0x80, hi=0xBF):
        return pos < n and bool(in_range(items[pos], lo, hi))

    while i < n:
        try:
            i = _utf8_step(items, i, n, out, cont, bad)
        except _Replace:
            # approximation of CPython's maximal-subpart rule: one U+FFFD for the offending byte, resume at the next byte
            if errors == "replace":
                out.append(0xFFFD)
            i += 1
    return out


def _utf8_step(items, i, n, out, cont, bad):
    if True:
        b0 = items[i]
        if in_range(b0, 0, 0x7F):
            out.append(b0)
            i += 1
        elif in_range(b0, 0xC2, 0xDF):
            if not cont(i + 1):
                bad(i)
            out.append(lift(b0 - 0xC0) * 64 + (lift(items[i + 1]) - 0x80) if True else None)
            i += 2
        elif in_range(b0, 0xE0, 0xEF):
            lo2 = 0xA0 if bool(item_eq(b0, 0xE0)) else 0x80
            hi2 = 0x9F if bool(item_eq(b0, 0xED)) else 0xBF
            if not cont(i + 1, lo2, hi2) or not cont(i + 2):
                bad(i)
            out.append(lift(b0 - 0xE0) * 4096 + (lift(items[i + 1]) - 0x80) * 64 + (lift(items[i + 2]) - 0x80))
            i += 3
        elif in_range(b0, 0xF0, 0xF4):
            lo2 = 0x90 if bool(item_eq(b0, 0xF0)) else 0x80
            hi2 = 0x8F if bool(item_eq(b0, 0xF4)) else 0xBF
            if not cont(i + 1, lo2, hi2) or not cont(i + 2) or not cont(i + 3):
                bad(i)
            out.append(lift(b0 - 0xF0) * 262144 + (lift(items[i + 1]) - 0x80) * 4096 + (lift(items[i + 2]) - 0x80) * 64 + (lift(items[i + 3]) - 0x80))
            i += 4
        else:
            bad(i)
    return i


def _splitlines(seq: SSeq, seps, keepends: bool):
    out = []
    curp: List[Any] = []
    its = seq.items
    i = 0
    n = len(its)
    while i < n:
        c = its[i]
        if in_set(c, seps):
            j = i + 1
            if item_eq(c, 13) and j < n and item_eq(its[j], 10):
                j += 1
            if keepends:
                curp.extend(its[i:j])
            out.append(seq._norm(curp))
            curp = []
            i = j
        else:
            curp.append(c)
            i += 1
    if curp:
        out.append(seq._norm(curp))
    return out


def desym(s: str) -> SStr | str:
    """Map a real str holding char placeholders (from SStr.__str__) back to an SStr."""
    e = cur()
    if not any(c in e.chars for c in s):
        return s
    return SStr([SInt(e.chars[c]) if c in e.chars else ord(c) for c in s])
