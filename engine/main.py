"""CLI: python -m engine.main C03 --tier quick | --replay PATH"""
from __future__ import annotations

import argparse
import importlib
import json
import os
import sys


def main(argv=None) -> int:
    ap = argparse.ArgumentParser()
    ap.add_argument("pid")
    ap.add_argument("--tier", default=os.environ.get("VERIF_TIER", "quick"), choices=["quick", "thorough"])
    ap.add_argument("--replay")
    ap.add_argument("--workers", type=int, default=int(os.environ.get("VERIF_WORKERS", "16")))
    ap.add_argument("--only", help="substring filter on job names (debugging)")
    a = ap.parse_args(argv)
    sys.setrecursionlimit(20000)
    mod = importlib.import_module("harness." + a.pid.lower())
    if a.replay:
        with open(a.replay) as f:
            rec = json.load(f)
        return mod.replay(rec)
    from engine import report
    if a.only:
        orig = mod.jobs
        mod.jobs = lambda tier: [j for j in orig(tier) if a.only in j["name"]]
    return report.run_check(mod, a.tier, a.workers)


if __name__ == "__main__":
    sys.exit(main())
