"""Python regex (as parsed by re._parser) -> z3 regular expression over z3 strings.
Used for language-level lemmas (E-Z3) and as an *independent* oracle next to ReShim."""
from __future__ import annotations

import re._constants as C
import re._parser as P

import z3


def _S():
    return z3.ReSort(z3.StringSort())


def allchar():
    return z3.AllChar(_S())


def _cat(av, ascii_only: bool):
    D = z3.Range("0", "9")
    W = z3.Union(z3.Range("0", "9"), z3.Range("a", "z"), z3.Range("A", "Z"), z3.Re("_"))
    SP = z3.Union(*[z3.Re(chr(c)) for c in (9, 10, 11, 12, 13, 32)])
    if not ascii_only:
        raise NotImplementedError("unicode categories: translate with ascii_only=True and bound the alphabet")
    m = {C.CATEGORY_DIGIT: D, C.CATEGORY_WORD: W, C.CATEGORY_SPACE: SP}
    if av in m:
        return m[av]
    n = {C.CATEGORY_NOT_DIGIT: D, C.CATEGORY_NOT_WORD: W, C.CATEGORY_NOT_SPACE: SP}
    return z3.Diff(allchar(), n[av])


def tr(seq, ascii_only: bool = True, dotall: bool = False):
    parts = []
    for op, av in seq:
        if op == C.LITERAL:
            parts.append(z3.Re(chr(av)))
        elif op == C.NOT_LITERAL:
            parts.append(z3.Diff(allchar(), z3.Re(chr(av))))
        elif op == C.ANY:
            parts.append(allchar() if dotall else z3.Diff(allchar(), z3.Re("\n")))
        elif op == C.IN:
            alts = []
            neg = False
            for o, a in av:
                if o == C.NEGATE:
                    neg = True
                elif o == C.LITERAL:
                    alts.append(z3.Re(chr(a)))
                elif o == C.RANGE:
                    alts.append(z3.Range(chr(a[0]), chr(a[1])))
                elif o == C.CATEGORY:
                    alts.append(_cat(a, ascii_only))
                else:
                    raise NotImplementedError(str(o))
            r = z3.Union(*alts) if len(alts) > 1 else alts[0]
            if neg:
                r = z3.Diff(allchar(), r)
            parts.append(r)
        elif op in (C.MAX_REPEAT, C.MIN_REPEAT):
            lo, hi, sub = av
            r = tr(sub, ascii_only, dotall)
            if hi == C.MAXREPEAT:
                if lo == 0:
                    parts.append(z3.Star(r))
                elif lo == 1:
                    parts.append(z3.Plus(r))
                else:
                    parts.append(z3.Concat(z3.Loop(r, lo, lo), z3.Star(r)))
            else:
                parts.append(z3.Loop(r, lo, hi))
        elif op == C.SUBPATTERN:
            parts.append(tr(av[3], ascii_only, dotall))
        elif op == C.BRANCH:
            parts.append(z3.Union(*[tr(a, ascii_only, dotall) for a in av[1]]))
        elif op == C.AT:
            raise NotImplementedError("anchors: handle at the call site")
        else:
            raise NotImplementedError(str(op))
    if not parts:
        return z3.Re("")
    return z3.Concat(*parts) if len(parts) > 1 else parts[0]


def regex_of(pattern: str, flags: int = 0, ascii_only: bool = True):
    import re
    return tr(P.parse(pattern, flags), ascii_only, bool(flags & re.DOTALL))


def string_of_codes(terms):
    """z3 String made of the given Int code-point terms / ints."""
    if not terms:
        return z3.StringVal("")
    us = [z3.StrFromCode(t if isinstance(t, z3.ExprRef) else z3.IntVal(t)) for t in terms]
    return z3.Concat(*us) if len(us) > 1 else us[0]
