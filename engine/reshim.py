"""ReShim -- a drop-in for the `re` module name inside a baize module.

`compile(p)` parses the *actual pattern text* the code passes (re._parser) and interprets
it with a backtracking matcher that has CPython's priority semantics (ordered alternation,
greedy / lazy repeats, groups) over sequences whose items may be symbolic.  On concrete
subjects everything delegates to the real `re`, so a change to a regex in baize changes
the encoding, and concrete behaviour is the real behaviour.
"""
from __future__ import annotations

import re as _re
import re._constants as C
import re._parser as P
from typing import Any, Dict, List, Optional

import z3

from .forksym import SInt, Unsupported, _mkbool, cur
from .symseq import SBytes, SSeq, SStr, item_eq, _items_of

_DIGITS = list(range(48, 58))
_WORD_ASCII = [c for c in range(128) if chr(c).isalnum() or c == 95]
_SPACE_ASCII = [9, 10, 11, 12, 13, 32]


def _cat_term(c: SInt, cat, is_bytes: bool, ascii_flag: bool):
    """z3 Bool for `c in category` (exact for bytes/ASCII patterns; for str patterns exact
    on Latin-1, and the harness must bound symbolic chars to <= 0xFF or the class is
    computed over the first 0x3000 code points)."""
    neg = False
    if cat in (C.CATEGORY_NOT_DIGIT, C.CATEGORY_NOT_SPACE, C.CATEGORY_NOT_WORD):
        neg = True
    if cat in (C.CATEGORY_DIGIT, C.CATEGORY_NOT_DIGIT):
        if is_bytes or ascii_flag:
            vals = _DIGITS
        else:
            vals = [k for k in range(0x3000) if chr(k).isdecimal()]
    elif cat in (C.CATEGORY_SPACE, C.CATEGORY_NOT_SPACE):
        if is_bytes or ascii_flag:
            vals = _SPACE_ASCII
        else:
            vals = [k for k in range(0x3001) if chr(k).isspace()]
    elif cat in (C.CATEGORY_WORD, C.CATEGORY_NOT_WORD):
        if is_bytes or ascii_flag:
            vals = _WORD_ASCII
        else:
            vals = [k for k in range(0x3000) if chr(k).isalnum() or k == 95]
    else:
        raise cur()._raise(Unsupported(f"regex category {cat}"))
    # compress into ranges
    rs = []
    for v in vals:
        if rs and rs[-1][1] == v - 1:
            rs[-1][1] = v
        else:
            rs.append([v, v])
    t = z3.Or([c.e == a if a == b else z3.And(c.e >= a, c.e <= b) for a, b in rs])
    return z3.Not(t) if neg else t


def _cat_conc(c: int, cat, is_bytes, ascii_flag):
    ch = chr(c)
    if cat == C.CATEGORY_DIGIT:
        return c in _DIGITS if (is_bytes or ascii_flag) else ch.isdecimal()
    if cat == C.CATEGORY_NOT_DIGIT:
        return not _cat_conc(c, C.CATEGORY_DIGIT, is_bytes, ascii_flag)
    if cat == C.CATEGORY_SPACE:
        return c in _SPACE_ASCII if (is_bytes or ascii_flag) else ch.isspace()
    if cat == C.CATEGORY_NOT_SPACE:
        return not _cat_conc(c, C.CATEGORY_SPACE, is_bytes, ascii_flag)
    if cat == C.CATEGORY_WORD:
        return c in _WORD_ASCII if (is_bytes or ascii_flag) else (ch.isalnum() or c == 95)
    if cat == C.CATEGORY_NOT_WORD:
        return not _cat_conc(c, C.CATEGORY_WORD, is_bytes, ascii_flag)
    raise cur()._raise(Unsupported(f"regex category {cat}"))


class _Matcher:
    def __init__(self, pat: "SPattern", s: List[Any]):
        self.p = pat
        self.s = s
        self.n = len(s)
        self.is_bytes = pat.is_bytes
        self.ascii = bool(pat.flags & _re.ASCII)
        self.dotall = bool(pat.flags & _re.DOTALL)
        self.multiline = bool(pat.flags & _re.MULTILINE)
        if pat.flags & _re.IGNORECASE:
            raise cur()._raise(Unsupported("IGNORECASE on symbolic subject"))

    def _in(self, c, items) -> bool:
        if _isinstance(c, SInt):
            neg = False
            alts = []
            for op, av in items:
                if op == C.NEGATE:
                    neg = True
                elif op == C.LITERAL:
                    alts.append(c.e == av)
                elif op == C.RANGE:
                    alts.append(z3.And(c.e >= av[0], c.e <= av[1]))
                elif op == C.CATEGORY:
                    alts.append(_cat_term(c, av, self.is_bytes, self.ascii))
                else:
                    raise cur()._raise(Unsupported(f"regex set op {op}"))
            r = bool(_mkbool(z3.Or(alts))) if alts else False
            return r != neg
        neg = False
        res = False
        for op, av in items:
            if op == C.NEGATE:
                neg = True
                continue
            if res:
                continue
            if op == C.LITERAL:
                res = c == av
            elif op == C.RANGE:
                res = av[0] <= c <= av[1]
            elif op == C.CATEGORY:
                res = _cat_conc(c, av, self.is_bytes, self.ascii)
            else:
                raise cur()._raise(Unsupported(f"regex set op {op}"))
        return res != neg

    def _is_nl(self, c) -> bool:
        return bool(item_eq(c, 10))

    def m(self, seq, k, pos, groups):
        """yield (end, groups) in priority order for matching seq[k:] at pos."""
        s = self.s
        n = self.n
        if k == len(seq):
            yield pos, groups
            return
        op, av = seq[k]
        if op == C.LITERAL:
            if pos < n and item_eq(s[pos], av):
                yield from self.m(seq, k + 1, pos + 1, groups)
        elif op == C.NOT_LITERAL:
            if pos < n and not item_eq(s[pos], av):
                yield from self.m(seq, k + 1, pos + 1, groups)
        elif op == C.ANY:
            if pos < n and (self.dotall or not self._is_nl(s[pos])):
                yield from self.m(seq, k + 1, pos + 1, groups)
        elif op == C.IN:
            if pos < n and self._in(s[pos], av):
                yield from self.m(seq, k + 1, pos + 1, groups)
        elif op == C.BRANCH:
            for alt in av[1]:
                for e, g in self.m(list(alt), 0, pos, groups):
                    yield from self.m(seq, k + 1, e, g)
        elif op == C.SUBPATTERN:
            gid, add_flags, del_flags, sub = av
            if add_flags or del_flags:
                raise cur()._raise(Unsupported("inline regex flags"))
            for e, g in self.m(list(sub), 0, pos, groups):
                if gid is not None:
                    g = dict(g)
                    g[gid] = (pos, e)
                    g["lastindex"] = gid  # sre: the group whose closing mark was set last on the successful path
                yield from self.m(seq, k + 1, e, g)
        elif op in (C.MAX_REPEAT, C.MIN_REPEAT):
            lo, hi, sub = av
            sub = list(sub)
            greedy = op == C.MAX_REPEAT

            def rep(count, p, g):
                if greedy:
                    if count < hi:
                        for e, g2 in self.m(sub, 0, p, g):
                            if e == p:
                                continue
                            yield from rep(count + 1, e, g2)
                    if count >= lo:
                        yield p, g
                else:
                    if count >= lo:
                        yield p, g
                    if count < hi:
                        for e, g2 in self.m(sub, 0, p, g):
                            if e == p:
                                continue
                            yield from rep(count + 1, e, g2)

            for e, g in rep(0, pos, groups):
                yield from self.m(seq, k + 1, e, g)
        elif op == C.AT:
            ok = False
            if av in (C.AT_BEGINNING_STRING,):
                ok = pos == 0
            elif av == C.AT_BEGINNING:
                ok = pos == 0 or (self.multiline and self._is_nl(s[pos - 1]))
            elif av == C.AT_END_STRING:
                ok = pos == n
            elif av == C.AT_END:
                ok = pos == n or (pos == n - 1 and self._is_nl(s[pos])) or (
                    self.multiline and pos < n and self._is_nl(s[pos]))
            else:
                raise cur()._raise(Unsupported(f"regex AT {av}"))
            if ok:
                yield from self.m(seq, k + 1, pos, groups)
        else:
            raise cur()._raise(Unsupported(f"regex op {op}"))


_isinstance = isinstance


class SMatch:
    def __init__(self, pat: "SPattern", subj: SSeq, st: int, en: int, groups: Dict[int, Any]):
        self.re = pat
        self.string = subj
        self.st, self.en, self.g = st, en, groups

    def _idx(self, g):
        if _isinstance(g, str):
            return self.re.groupindex[g]
        return g

    @property
    def lastindex(self):
        return self.g.get("lastindex")

    @property
    def lastgroup(self):
        li = self.lastindex
        for name, g in self.re.groupindex.items():
            if g == li:
                return name
        return None

    def span(self, g=0):
        g = self._idx(g)
        if g == 0:
            return self.st, self.en
        return self.g.get(g, (-1, -1))

    def start(self, g=0):
        return self.span(g)[0]

    def end(self, g=0):
        return self.span(g)[1]

    def group(self, *gs):
        if not gs:
            gs = (0,)
        out = []
        for g in gs:
            a, b = self.span(g)
            out.append(None if a < 0 else self.string[a:b])
        return out[0] if len(out) == 1 else tuple(out)

    def __getitem__(self, g):
        return self.group(g)

    def groups(self, default=None):
        out = []
        for g in range(1, self.re.groups + 1):
            v = self.group(g)
            out.append(default if v is None else v)
        return tuple(out)

    def groupdict(self, default=None):
        d = {}
        for name, g in self.re.groupindex.items():
            v = self.group(g)
            d[name] = default if v is None else v
        return d


class SPattern:
    def __init__(self, pattern, flags=0):
        if _isinstance(pattern, SSeq):
            pattern = pattern.real()
        self.pattern = pattern
        self.real = _re.compile(pattern, flags)
        self.flags = self.real.flags
        self.is_bytes = _isinstance(pattern, (bytes, bytearray))
        self.tree = list(P.parse(pattern, flags))
        self.groups = self.real.groups
        self.groupindex = dict(self.real.groupindex)

    def _subj(self, s):
        """(items, seq) for a symbolic subject, or None for a concrete one."""
        if _isinstance(s, SSeq):
            if s.concrete():
                return None, s.real()
            return s.items, s
        return None, s

    def _search(self, s, full=False, anchored=False, pos=0):
        items, subj = self._subj(s)
        if items is None:
            return None, subj
        mt = _Matcher(self, items)
        starts = [pos] if (anchored or full) else range(pos, len(items) + 1)
        for st in starts:
            for e, g in mt.m(self.tree, 0, st, {}):
                if full and e != len(items):
                    continue
                return SMatch(self, subj, st, e, g), subj
        return False, subj

    def search(self, s, pos=0):
        m, subj = self._search(s, pos=pos)
        if m is None:
            return self.real.search(subj, pos)
        return m or None

    def match(self, s, pos=0):
        m, subj = self._search(s, anchored=True, pos=pos)
        if m is None:
            return self.real.match(subj, pos)
        return m or None

    def fullmatch(self, s):
        m, subj = self._search(s, full=True)
        if m is None:
            return self.real.fullmatch(subj)
        return m or None

    def finditer(self, s):
        items, subj = self._subj(s)
        if items is None:
            yield from self.real.finditer(subj)
            return
        pos = 0
        n = len(items)
        while pos <= n:
            m, _ = self._search(s, pos=pos)
            if not m:
                return
            yield m
            pos = m.en if m.en > m.st else m.en + 1
            if m.en == m.st and m.st >= n:
                return

    def findall(self, s):
        items, subj = self._subj(s)
        if items is None:
            return self.real.findall(subj)
        out = []
        for m in self.finditer(s):
            if self.groups == 0:
                out.append(m.group(0))
            elif self.groups == 1:
                out.append(_empty_like(s) if m.group(1) is None else m.group(1))
            else:
                out.append(tuple(_empty_like(s) if v is None else v for v in m.groups()))
        return out

    def sub(self, repl, s, count=0):
        items, subj = self._subj(s)
        if items is None:
            return self.real.sub(repl, subj, count)
        if callable(repl):
            fn = repl
        else:
            ritems = _items_of(repl)
            if ritems is None:
                raise cur()._raise(Unsupported("regex sub with a non-text replacement"))
            fn = None
            if 92 in ritems:
                if _isinstance(repl, SSeq):
                    if not repl.concrete():
                        raise cur()._raise(Unsupported("regex sub template with symbolic escapes"))
                    repl = repl.real()
                # the interpreter's own template parser: alternating literal text and group numbers ("a\\1b" -> ['a', 1, 'b'])
                tmpl = P.parse_template(repl, self.real)

                def fn(m, tmpl=tmpl):
                    out_: List[Any] = []
                    for piece in tmpl:
                        if _isinstance(piece, int):
                            g = m.group(piece)
                            if g is not None:  # an unmatched group expands to nothing (3.5+)
                                out_.extend(_items_of(g))
                        elif piece:
                            out_.extend(_items_of(piece))
                    return out_
        out: List[Any] = []
        last = 0
        k = 0
        for m in self.finditer(s):
            out.extend(items[last:m.st])
            r = fn(m) if fn is not None else repl
            out.extend(r if _isinstance(r, list) else _items_of(r))
            last = m.en
            k += 1
            if count and k >= count:
                break
        out.extend(items[last:])
        return s._norm(out)

    def split(self, s, maxsplit=0):
        items, subj = self._subj(s)
        if items is None:
            return self.real.split(subj, maxsplit)
        if self.groups:
            raise cur()._raise(Unsupported("regex split with capture groups on symbolic subject"))
        out = []
        last = 0
        k = 0
        for m in self.finditer(s):
            if m.en == m.st:
                raise cur()._raise(Unsupported("regex split on empty match"))
            out.append(s._norm(items[last:m.st]))
            last = m.en
            k += 1
            if maxsplit and k >= maxsplit:
                break
        out.append(s._norm(items[last:]))
        return out


def _empty_like(s):
    return "" if _isinstance(s, (str, SStr)) else b""


class ReShim:
    """Module-like object to inject as the global name `re`."""
    MULTILINE = _re.MULTILINE
    M = _re.M
    ASCII = _re.ASCII
    A = _re.A
    DOTALL = _re.DOTALL
    S = _re.S
    IGNORECASE = _re.IGNORECASE
    I = _re.I
    VERBOSE = _re.VERBOSE
    X = _re.X
    error = _re.error
    Pattern = _re.Pattern
    Match = _re.Match
    _cache: Dict[Any, SPattern] = {}

    @classmethod
    def compile(cls, p, flags=0):
        if _isinstance(p, SPattern):
            return p
        if _isinstance(p, SSeq):
            p = p.real()
        key = (p, int(flags))
        r = cls._cache.get(key)
        if r is None:
            r = cls._cache[key] = SPattern(p, flags)
        return r

    @staticmethod
    def escape(p):
        if _isinstance(p, SSeq):
            p = p.real()
        return _re.escape(p)

    @classmethod
    def search(cls, p, s, flags=0): return cls.compile(p, flags).search(s)
    @classmethod
    def match(cls, p, s, flags=0): return cls.compile(p, flags).match(s)
    @classmethod
    def fullmatch(cls, p, s, flags=0): return cls.compile(p, flags).fullmatch(s)
    @classmethod
    def findall(cls, p, s, flags=0): return cls.compile(p, flags).findall(s)
    @classmethod
    def finditer(cls, p, s, flags=0): return cls.compile(p, flags).finditer(s)
    @classmethod
    def sub(cls, p, repl, s, count=0, flags=0): return cls.compile(p, flags).sub(repl, s, count)
    @classmethod
    def split(cls, p, s, maxsplit=0, flags=0): return cls.compile(p, flags).split(s, maxsplit)


def wrap_pattern(real_pattern) -> SPattern:
    """Shim for an already compiled module-level pattern object (e.g. BLANK_LINE_RE)."""
    return ReShim.compile(real_pattern.pattern, real_pattern.flags & ~_re.UNICODE)
