"""Check runner: fans harness jobs out over worker processes, classifies violations against
/verif/known_findings.json, writes replay files and the evidence file, prints the
VIOLATION / KNOWN-FINDING lines and returns the exit code.

Exit codes: 0 property held on everything explored (KNOWN-FINDING lines allowed),
            1 at least one reproduced violation that is not a listed known finding,
            2 harness error (non-reproducing counterexample, vacuous harness, crash).
"""
from __future__ import annotations

import hashlib
import inspect
import json
import multiprocessing as mp
import os
import sys
import time
import traceback
from typing import Any, Callable, Dict, List, Optional

ROOT = os.path.dirname(os.path.dirname(os.path.abspath(__file__)))
# runs against a scratch copy of the repository (VERIF_REPO=..., used for the seeded changes) must not overwrite the evidence of /repo itself
_SCRATCH_OUT = os.environ.get("VERIF_SCRATCH_OUT") if os.environ.get("VERIF_REPO") else None
EVIDENCE_DIR = os.path.join(_SCRATCH_OUT or ROOT, "evidence")
REPLAY_DIR = os.path.join(_SCRATCH_OUT or ROOT, "replays")
KNOWN = os.path.join(ROOT, "known_findings.json")


def src_hash(obj) -> str:
    try:
        src = inspect.getsource(obj)
    except Exception:  # noqa: BLE001
        return "?"
    return hashlib.sha1(src.encode()).hexdigest()[:12]


def qualname(obj) -> str:
    mod = getattr(obj, "__module__", "?")
    qn = getattr(obj, "__qualname__", getattr(obj, "__name__", repr(obj)))
    return f"{mod}.{qn}"


def functions_encoded(objs) -> List[Dict[str, str]]:
    out = []
    for o in objs:
        f = getattr(o, "__func__", o)
        f = getattr(f, "func", f) if type(f).__name__ == "cached_property" else f
        try:
            file = inspect.getsourcefile(f) or "?"
        except TypeError:
            file = "?"
        out.append({"name": qualname(f), "file": file, "sha1": src_hash(f)})
    return out


def load_known() -> Dict[str, Dict[str, Any]]:
    if not os.path.exists(KNOWN):
        return {}
    with open(KNOWN) as f:
        data = json.load(f)
    return {x["key"]: x for x in data.get("findings", []) if x.get("status") == "known"}


class JobResult(dict):
    """Plain dict with defaults; must be picklable."""

    @staticmethod
    def new(name: str, **kw) -> "JobResult":
        r = JobResult(name=name, paths=0, queries=0, solver_s=0.0, validated=0, pruned=0,
                      exhausted=True, unsupported=[], unwind_failures=[], violations=[],
                      samples=[], kinds={}, twin=False, wall_s=0.0, engine="E-FS",
                      harness_errors=[], obligations=1, recipes=1)
        r.update(kw)
        return r

    def absorb_engine(self, eng) -> None:
        self["paths"] += eng.paths
        self["queries"] += eng.nq
        self["solver_s"] += eng.tq
        self["pruned"] += eng.pruned
        if not eng.exhausted:
            self["exhausted"] = False
        self["unsupported"].extend(eng.unsupported[:5])
        if len(eng.unsupported) > 5:
            self["unsupported"].append(f"... {len(eng.unsupported) - 5} more")
        self["unwind_failures"].extend(eng.unwind_failures[:5])

    def kind(self, k: str, n: int = 1) -> None:
        self["kinds"][k] = self["kinds"].get(k, 0) + n

    def violation(self, key: str, witness: Any, detail: str, reproduced: Optional[bool]) -> None:
        if len(self["violations"]) < 40:
            self["violations"].append(dict(key=key, witness=witness, detail=detail,
                                           reproduced=reproduced, job=self["name"]))
        else:
            self["violations_dropped"] = self.get("violations_dropped", 0) + 1

    def sample(self, s: Any, limit: int = 3) -> None:
        if len(self["samples"]) < limit:
            self["samples"].append(s)


def _run_job(args):
    modname, job = args
    t0 = time.time()
    try:
        import importlib
        mod = importlib.import_module(modname)
        from engine.symseq import SSeq
        SSeq.NORMALIZE, SSeq.CONST_HASH = True, False  # class-level switches never leak from one job into the next
        res = mod.run_job(job)
    except BaseException as e:  # noqa: BLE001
        res = JobResult.new(job.get("name", "?"))
        res["harness_errors"].append("".join(traceback.format_exception(type(e), e, e.__traceback__))[-3000:])
    res["twin"] = bool(job.get("twin"))
    res["wall_s"] = round(time.time() - t0, 3)
    return res


def run_check(mod, tier: str, workers: int = 16) -> int:
    """mod: harness module with PID, META, jobs(tier), run_job(job)."""
    pid = mod.PID
    seed = int(os.environ.get("VERIF_SEED", "0") or 0)
    t0 = time.time()
    # every temporary file / directory of this run (real trees for the replays, spool files) lives below one directory that THIS process
    # removes at the end: pool workers are ended without running their atexit handlers
    import shutil
    import tempfile
    run_tmp = tempfile.mkdtemp(prefix=f"verif_{pid}_")
    os.environ["TMPDIR"] = run_tmp
    tempfile.tempdir = None
    try:
        return _run_check(mod, tier, workers, seed, t0)
    finally:
        shutil.rmtree(run_tmp, ignore_errors=True)


def _run_check(mod, tier: str, workers: int, seed: int, t0: float) -> int:
    jobs = mod.jobs(tier)
    # longest-first scheduling when the harness gives weights
    jobs = sorted(jobs, key=lambda j: -j.get("weight", 1))
    results: List[JobResult] = []
    if workers <= 1 or len(jobs) <= 1:
        for j in jobs:
            results.append(_run_job((mod.__name__, j)))
    else:
        ctx = mp.get_context("fork")
        with ctx.Pool(min(workers, len(jobs)), maxtasksperchild=8) as pool:
            for r in pool.imap_unordered(_run_job, [(mod.__name__, j) for j in jobs], chunksize=1):
                results.append(r)
    return finish(mod, tier, seed, results, time.time() - t0)


def _slug(s: str) -> str:
    return "".join(c if c.isalnum() or c in "-_." else "_" for c in s)[:80]


def finish(mod, tier: str, seed: int, results: List[JobResult], wall: float) -> int:
    pid = mod.PID
    meta = mod.META
    known = load_known()
    os.makedirs(EVIDENCE_DIR, exist_ok=True)
    harness_errors: List[str] = []
    tot = dict(paths=0, queries=0, solver_s=0.0, validated=0, pruned=0)
    kinds: Dict[str, int] = {}
    inconclusive: List[str] = []
    undecided_hard = False
    samples: List[Any] = []
    obligations = 0
    discharged = 0
    recipes = 0
    real_violations: List[Dict[str, Any]] = []
    known_hits: Dict[str, Dict[str, Any]] = {}
    twin_ok = True
    per_job = []
    for r in sorted(results, key=lambda r: r["name"]):
        for k in tot:
            tot[k] += r[k]
        recipes += r.get("recipes", 1)
        for k, v in r["kinds"].items():
            kinds[k] = kinds.get(k, 0) + v
        harness_errors.extend(f"{r['name']}: {e}" for e in r["harness_errors"])
        if r["twin"]:
            if not r["violations"]:
                twin_ok = False
                harness_errors.append(f"{r['name']}: reachability twin did not reach its assert False (vacuous harness)")
            continue
        obligations += r.get("obligations", 1)
        decided = r["exhausted"] and not r["unsupported"] and not r["unwind_failures"] and not r["harness_errors"]
        if decided:
            discharged += r.get("obligations", 1)
        else:
            why = []
            if not r["exhausted"]:
                why.append("time budget exhausted before the path tree")
            if r["unsupported"]:
                why.append("unsupported: " + "; ".join(r["unsupported"][:2]))
            if r["unwind_failures"]:
                why.append("unwinding assertion failed: " + r["unwind_failures"][0])
            inconclusive.append(f"{r['name']}: " + "; ".join(why))
            if r["unsupported"] or r["unwind_failures"]:
                # deterministic: the current source does something the engine cannot encode, so this obligation is NOT decided.
                # Never a pass (exit 2, the harness-error code); a plain time-budget overrun stays a reported INCONCLUSIVE line.
                undecided_hard = True
        for s in r["samples"]:
            if len(samples) < 12:
                samples.append({"job": r["name"], **(s if isinstance(s, dict) else {"case": s})})
        for v in r["violations"]:
            if v["reproduced"] is False:
                harness_errors.append(f"{r['name']}: counterexample did not reproduce on the unshimmed code: "
                                      f"{v['key']} {json.dumps(v['witness'], default=str)[:300]}")
                continue
            if v["key"] in known:
                known_hits.setdefault(v["key"], v)
            else:
                real_violations.append(v)
        per_job.append({k: r[k] for k in ("name", "engine", "paths", "queries", "validated", "exhausted", "wall_s")}
                       | {"solver_s": round(r["solver_s"], 3), "violations": len(r["violations"])})
    # expected reachability kinds (vacuity guard)
    for k in meta.get("expect_kinds", {}).get(tier, meta.get("expect_kinds", {}).get("all", [])):
        if kinds.get(k, 0) == 0:
            harness_errors.append(f"vacuity: no explored path reached outcome kind {k!r}")
    if tot["paths"] == 0 or tot["queries"] == 0:
        harness_errors.append("no paths / no solver queries: nothing was decided")

    # ---- replay files + lines
    lines: List[str] = []
    seen_keys = set()
    for v in real_violations:
        if v["key"] in seen_keys:
            continue
        seen_keys.add(v["key"])
        d = os.path.join(REPLAY_DIR, pid)
        os.makedirs(d, exist_ok=True)
        path = os.path.join(d, _slug(v["key"]) + ".json")
        with open(path, "w") as f:
            json.dump({"property": pid, **v}, f, indent=1, default=str)
        lines.append(f"VIOLATION property={pid} replay={path}")
        lines.append(f"  key={v['key']} job={v['job']} detail={v['detail'][:300]}")
        lines.append(f"  witness={json.dumps(v['witness'], default=str)[:400]}")
    for k, v in sorted(known_hits.items()):
        lines.append(f"KNOWN-FINDING: property={pid} {k}: {known[k].get('what', '')}")
    for s in inconclusive[:20]:
        lines.append(f"INCONCLUSIVE: property={pid} {s}")
    for e in harness_errors[:20]:
        lines.append(f"HARNESS-ERROR: property={pid} {e}")

    bounds = meta.get("bounds", {}).get(tier, {})
    evidence = {
        "property_id": pid,
        "tier": tier,
        "seed": seed,
        "level": "model_checking",
        "coverage": {
            "states": tot["paths"],
            "transitions": tot["queries"],
            "traces_validated_against_impl": tot["validated"],
            "samples": samples or [{"note": "no sample recorded"}],
            "exhaustive": bool(not inconclusive and not harness_errors),
            "explanation": ("states = symbolic paths explored (each covers every concrete input satisfying its path "
                            "condition); transitions = SMT queries discharged; traces_validated = paths whose model "
                            "was replayed on the unshimmed real code and agreed with the symbolic result"),
            "obligations": obligations,
            "discharged": discharged,
            "inconclusive_obligations": inconclusive,
            "recipes_enumerated": recipes,
            "paths_pruned_by_precondition": tot["pruned"],
            "outcome_kinds": kinds,
            "solver_s": round(tot["solver_s"], 2),
            "solver": meta.get("solver", "z3 %s (python wheel), incremental push/pop" % _z3v()),
            "bounds": bounds,
            "outside_bounds": meta.get("outside", []),
            "functions_encoded": functions_encoded(meta["functions"]() if callable(meta["functions"]) else meta["functions"]),
            "stubs": meta.get("stubs", []),
            "engines": meta.get("engines", ["E-FS"]),
            "reachability_twins_ok": twin_ok,
            "known_findings_matched": sorted(known_hits),
            "per_job": per_job[:400],
            "checker_cmd": f"./check {pid} --tier {tier}",
        },
        "assumptions": meta.get("assumptions", []),
        "wall_s": round(wall, 2),
        "violations": len(seen_keys),
    }
    with open(os.path.join(EVIDENCE_DIR, f"{pid}.json"), "w") as f:
        json.dump(evidence, f, indent=1, default=str)
    for ln in lines:
        print(ln)
    print(f"{pid} {tier}: paths={tot['paths']} queries={tot['queries']} solver_s={tot['solver_s']:.1f} "
          f"validated={tot['validated']} obligations={discharged}/{obligations} recipes={recipes} "
          f"violations={len(seen_keys)} known={len(known_hits)} inconclusive={len(inconclusive)} "
          f"wall={wall:.1f}s")
    sys.stdout.flush()
    if seen_keys:
        return 1
    if harness_errors or undecided_hard:
        return 2
    return 0


def _z3v() -> str:
    try:
        import z3
        return z3.get_version_string()
    except Exception:  # noqa: BLE001
        return "?"
