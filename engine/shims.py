"""Environment stubs: names injected into baize module globals so that the real code
accepts proxies.  Python resolves module globals before builtins, so no source line of
/repo changes.  Every name injected by a harness is listed in its evidence file."""
from __future__ import annotations

import builtins
import contextlib
from typing import Any, Dict, List, Tuple

import z3

from .forksym import (SBool, SInt, Unsupported, UnwindExceeded, cur, ite, lift, smax, smin,
                      sym, term_of)
from .symseq import SBytes, SSeq, SStr, in_range, in_set, _items_of

_MISSING = object()


class Shims:
    """A set of (module, name, value) injections that can be switched on and off."""

    def __init__(self):
        self.entries: List[Tuple[Any, str, Any]] = []
        self._saved: List[Tuple[Any, str, Any]] = []
        self.active = False

    def add(self, module, **names):
        for k, v in names.items():
            self.entries.append((module, k, v))
        return self

    def add_compiled_regexes(self, module):
        """every module-level compiled pattern, or bound method of one (``re.compile(..).fullmatch``), is replaced by the same
        pattern text re-compiled through ReShim -- whatever their names are in the current source, so a regex added to the
        module by an edit is executed symbolically too instead of rejecting the proxy with a TypeError"""
        import re as _re
        from .reshim import ReShim
        have = {(m, k) for m, k, _ in self.entries}
        for k, v in list(vars(module).items()):
            if (module, k) in have:
                continue
            if isinstance(v, _re.Pattern):
                self.entries.append((module, k, ReShim.compile(v.pattern, v.flags & ~_re.UNICODE)))
            elif isinstance(getattr(v, "__self__", None), _re.Pattern):
                pat = v.__self__
                self.entries.append((module, k, getattr(ReShim.compile(pat.pattern, pat.flags & ~_re.UNICODE), v.__name__)))
        return self

    def describe(self) -> List[str]:
        return [f"{getattr(m, '__name__', type(m).__name__)}.{k}" for m, k, _ in self.entries]

    def install(self):
        if self.active:
            return
        self._saved = []
        for m, k, v in self.entries:
            d = m.__dict__ if hasattr(m, "__dict__") else None
            old = d.get(k, _MISSING) if d is not None else getattr(m, k, _MISSING)
            self._saved.append((m, k, old))
            setattr(m, k, v)
        self.active = True

    def remove(self):
        if not self.active:
            return
        for m, k, old in reversed(self._saved):
            if old is _MISSING:
                try:
                    delattr(m, k)
                except AttributeError:
                    pass
            else:
                setattr(m, k, old)
        self.active = False

    def __enter__(self):
        self.install()
        return self

    def __exit__(self, *a):
        self.remove()
        return False

    @contextlib.contextmanager
    def off(self):
        """Temporarily run the *unshimmed* real code (per-path validation / replay)."""
        was = self.active
        self.remove()
        from .forksym import Engine
        prev = Engine.cur
        Engine.cur = None
        try:
            yield
        finally:
            Engine.cur = prev
            if was:
                self.install()


# ------------------------------------------------------------------ builtin stand-ins
class _Meta(type):
    def __instancecheck__(cls, x):
        return builtins.isinstance(x, cls._REAL) or builtins.isinstance(x, cls._SYM)


class bytes_shim(metaclass=_Meta):
    _REAL = (builtins.bytes,)
    _SYM = (SBytes,)

    def __new__(cls, x=b"", *a):
        if builtins.isinstance(x, SBytes):
            return x._norm(list(x.items))
        return builtins.bytes(x, *a)


class bytearray_shim(metaclass=_Meta):
    _REAL = (builtins.bytearray,)
    _SYM = (SBytes,)

    def __new__(cls, x=b"", *a):
        if builtins.isinstance(x, SBytes):
            return SBytes(list(x.items))
        return SBytes(builtins.bytes(x, *a))


class str_shim(metaclass=_Meta):
    _REAL = (builtins.str,)
    _SYM = (SStr,)

    def __new__(cls, x="", *a):
        if builtins.isinstance(x, SStr):
            return x
        if builtins.isinstance(x, SInt):
            return cur().render_int(x.e)
        if not a and builtins.type(x).__module__ != "builtins":
            # a user class whose __str__ hands back a proxy (e.g. baize URL over symbolic text): str() itself would reject it
            r = builtins.type(x).__str__(x)
            if builtins.isinstance(r, (SStr, builtins.str)):
                return r
        return builtins.str(x, *a)


def int_shim(x=0, *a):
    """int() that keeps SInt symbolic and parses symbolic digit strings into a term."""
    if builtins.isinstance(x, SInt):
        return x
    if builtins.isinstance(x, SBool):
        return ite(x, 1, 0)
    if builtins.isinstance(x, SSeq):
        if x.concrete():
            return builtins.int(x.real(), *a)
        base = a[0] if a else 10
        if base not in (8, 10, 16):
            raise cur()._raise(Unsupported(f"int() with base {base} on symbolic text"))
        s = x.strip()
        its = _items_of(s)
        neg = False
        if its and in_set(its[0], (43, 45)):
            neg = bool(in_set(its[0], (45,)))
            its = its[1:]
        if not its:
            raise ValueError(f"invalid literal for int() with base {base}: ''")
        total = z3.IntVal(0)
        prev_digit = False
        for pos, c in enumerate(its):
            if in_set(c, (95,)):
                # a single underscore is allowed between two digits
                if not prev_digit or pos == len(its) - 1:
                    raise ValueError(f"invalid literal for int() with base {base}")
                prev_digit = False
                continue
            if in_range(c, 48, 57 if base >= 10 else 55):
                d = term_of(c) - 48
            elif base == 16 and in_range(c, 97, 102):
                d = term_of(c) - 87
            elif base == 16 and in_range(c, 65, 70):
                d = term_of(c) - 55
            else:
                if builtins.isinstance(s, SStr) and builtins.isinstance(c, SInt) and not (c <= 0xFF):
                    raise cur()._raise(Unsupported("non-Latin-1 digit in symbolic integer literal"))
                raise ValueError(f"invalid literal for int() with base {base}")
            total = total * base + d
            prev_digit = True
        if neg:
            total = -total
        return SInt(z3.simplify(total))
    return builtins.int(x, *a)


def chr_shim(x):
    if builtins.isinstance(x, SInt):
        return SStr([x])
    return builtins.chr(x)


def nulljoin_shim(parts):
    out = []
    for p in parts:
        out.extend(_items_of(p))
    return SStr(out)


class SRange:
    """range() over symbolic bounds with an unwinding bound K (asserted, not assumed)."""

    def __init__(self, a, b, c, K):
        self.a, self.b, self.c, self.K = a, b, c, K

    def __iter__(self):
        here = self.a
        n = 0
        while here < self.b:
            if n >= self.K:
                raise cur()._raise(UnwindExceeded(f"range loop beyond {self.K} iterations"))
            yield here
            here = here + self.c
            n += 1


def make_range_shim(K: int):
    def range_shim(*a):
        if any(builtins.isinstance(x, SInt) for x in a):
            a = list(a)
            if len(a) == 1:
                a = [0, a[0], 1]
            if len(a) == 2:
                a = a + [1]
            step = a[2]
            if builtins.isinstance(step, SInt):
                cur().assume(step.e > 0)
            elif step <= 0:
                raise cur()._raise(Unsupported("non-positive range step"))
            return SRange(lift(a[0]), lift(a[1]), a[2], K)
        return builtins.range(*a)
    return range_shim


def len_shim(x):
    return builtins.len(x)


def min_shim(*a, **k):
    if len(a) == 2 and not k and (sym(a[0]) or sym(a[1])):
        return smin(a[0], a[1])
    return builtins.min(*a, **k)


def max_shim(*a, **k):
    if len(a) == 2 and not k and (sym(a[0]) or sym(a[1])):
        return smax(a[0], a[1])
    return builtins.max(*a, **k)


def sum_shim(it, start=0):
    tot = start
    for x in it:
        tot = tot + x
    return tot
