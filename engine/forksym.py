"""forksym -- a light fork-on-branch symbolic executor for running the *real* baize code.

Principle (same as CrossHair, without sys.settrace): proxy values carry z3 terms;
every `bool(proxy)` asks z3 (incremental push/pop) which sides are feasible and follows a
DFS plan; the function under test is re-executed from the start for every path
(stateless replay).  Each explored path covers every concrete input that satisfies its
path condition; the property is asserted per path by a solver query over the path's
symbolic result.

Nothing in here knows about baize.  Harnesses make the real code accept proxies by
injecting module-global names (see shims.py) -- no source line of /repo is changed.
"""
from __future__ import annotations

import builtins
import time
from typing import Any, Callable, Dict, List, Optional, Tuple

import z3

_int = builtins.int
_str = builtins.str
_bytes = builtins.bytes
_isinstance = builtins.isinstance


class EngineSignal(BaseException):
    """Control-flow signals of the engine; BaseException so `except Exception` in the
    code under test cannot swallow them."""


class Unsupported(EngineSignal):
    """An operation on a proxy that the engine cannot model: the path is inconclusive."""


class Pruned(EngineSignal):
    """The path violates an `assume` (outside the harness precondition): dropped silently."""


class UnwindExceeded(EngineSignal):
    """Unwinding assertion failed: a loop ran past the stated bound. Never a pass."""


class _Cut(EngineSignal):
    """Internal: prefix enumeration reached its depth."""


class SolverUnknown(EngineSignal):
    pass


class Engine:
    """One exploration = one Engine. Not thread safe; one per process/worker."""

    cur: Optional["Engine"] = None

    def __init__(self, timeout_ms: int = 30000, budget_s: Optional[float] = None,
                 render_digits: int = 9):
        self.solver = z3.Solver()
        self.solver.set("timeout", timeout_ms)
        self.depth = 0
        self.plan: List[Tuple[bool, bool]] = []
        self.trail: List[Tuple[bool, bool]] = []
        self.nq = 0
        self.tq = 0.0
        self.paths = 0
        self.pruned = 0
        self.unsupported: List[str] = []
        self.unwind_failures: List[str] = []
        self.unknowns = 0
        self.budget_s = budget_s
        self.exhausted = True
        self.abort: Optional[BaseException] = None
        self.cut_depth: Optional[int] = None
        self.render_digits = render_digits
        # render_opaque: rendered ints become 1-char canonical tokens with NO digit-count fork; only
        # sound where the harness knows the rendered text's length/content is never inspected
        self.render_opaque = False
        # token alphabet: 'pua' (plane-15 private use; default) or 'ctl' (ASCII control chars that survive
        # .encode('ascii'/'latin-1') and the header-value CR/LF/NUL check; at most 22 distinct terms per path)
        self.token_alphabet = "pua"
        # placeholder alphabet for symbolic characters crossing an f-string: 'pua16' (plane 16, utf-8 only) or
        # 'c1' (U+0080..U+009F minus NEL: Latin-1 encodable, for non-UTF-8 charsets)
        self.char_alphabet = "pua16"
        self.sensitive_chars: Tuple[int, ...] = ()
        self._fresh = 0
        # per-path token registry for f-string rendering
        self.rendered: List[Tuple[z3.ExprRef, str]] = []
        self.tokens: Dict[str, z3.ExprRef] = {}
        self.chars: Dict[str, z3.ExprRef] = {}
        self.path_notes: Dict[str, Any] = {}
        self.known: Dict[int, Tuple[bool, Any]] = {}

    # ------------------------------------------------------------------ solver
    def check(self, *assumps) -> bool:
        t = time.perf_counter()
        r = self.solver.check(*assumps)
        self.tq += time.perf_counter() - t
        self.nq += 1
        if r == z3.unknown:
            self.unknowns += 1
            self.last_sat = False
            raise self._raise(SolverUnknown(self.solver.reason_unknown()))
        self.last_sat = r == z3.sat
        return r == z3.sat

    def witness(self) -> z3.ModelRef:
        """Model of the last query if it was sat (the failing assertion's counterexample), else a model of
        the path condition."""
        if getattr(self, "last_sat", False):
            try:
                return self.solver.model()
            except z3.Z3Exception:
                pass  # a push/pop since the last sat query invalidated the model
        if not self.check():
            raise RuntimeError("path condition unsat at witness()")
        return self.solver.model()

    def model(self) -> z3.ModelRef:
        if not self.check():
            raise RuntimeError("path condition unsat at model()")
        return self.solver.model()

    def _raise(self, exc: BaseException) -> BaseException:
        if self.abort is None:
            self.abort = exc
        return exc

    # ---------------------------------------------------------------- branching
    def branch(self, cond, forced: bool = False) -> bool:
        """Decide `cond` on the current path. forced=True is `assume`."""
        if self.abort is not None:
            raise self.abort
        if _isinstance(cond, bool):
            if forced and not cond:
                raise self._raise(Pruned())
            return cond
        cond = z3.simplify(cond)
        if z3.is_true(cond):
            return True
        if z3.is_false(cond):
            if forced:
                raise self._raise(Pruned())
            return False
        cid = cond.get_id()
        hit = self.known.get(cid)
        if hit is not None:
            # the same condition was already decided earlier on this path: implied, no query, no trail entry
            if forced and not hit[0]:
                raise self._raise(Pruned())
            return hit[0]
        choice = self._decide(cond, forced)
        self.known[cid] = (choice, cond)
        neg = z3.simplify(z3.Not(cond))
        self.known[neg.get_id()] = (not choice, neg)
        return choice

    def _decide(self, cond, forced: bool) -> bool:
        i = len(self.trail)
        if i < len(self.plan):
            choice, has_alt = self.plan[i]
            if i >= self.depth:
                self.solver.push()
                self.depth += 1
                self.last_sat = False
                self.solver.add(cond if choice else z3.Not(cond))
            self.trail.append((choice, has_alt))
            return choice
        if self.cut_depth is not None and i >= self.cut_depth:
            raise self._raise(_Cut())
        if forced:
            if not self.check(cond):
                raise self._raise(Pruned())
            choice, has_alt = True, False
        else:
            can_t = self.check(cond)
            can_f = self.check(z3.Not(cond)) if can_t else True
            if can_t and can_f:
                choice, has_alt = True, True
            elif can_t:
                choice, has_alt = True, False
            else:
                choice, has_alt = False, False
        self.solver.push()
        self.depth += 1
        self.last_sat = False
        self.solver.add(cond if choice else z3.Not(cond))
        self.trail.append((choice, has_alt))
        return choice

    def assume(self, cond) -> None:
        if _isinstance(cond, SBool):
            cond = cond.e
        self.branch(cond, forced=True)

    def fresh(self, name: str, lo=None, hi=None) -> "SInt":
        """A fresh symbolic int created *during* a path (deterministic naming)."""
        self._fresh += 1
        v = z3.Int(f"{name}!{self._fresh}")
        x = SInt(v)
        if lo is not None:
            self.assume(v >= lo)
        if hi is not None:
            self.assume(v <= hi)
        return x

    def choose(self, n: int, name: str = "ch") -> int:
        """Nondeterministic concrete choice in range(n) (forks n ways)."""
        v = self.fresh(name, 0, n - 1)
        for k in range(n - 1):
            if self.branch(v.e == k):
                return k
        return n - 1

    # ----------------------------------------------------------------- explore
    def _reset_path(self):
        self.known = {}
        self.trail = []
        self.abort = None
        self._fresh = 0
        self.rendered = []
        self.tokens = {}
        self.chars = {}
        self.path_notes = {}

    def explore(self, fn: Callable[[], Any], on_path: Callable[["Engine", Tuple[str, Any]], None],
                prefix: Optional[List[bool]] = None) -> None:
        """Run fn() over every feasible path; call on_path(engine, (kind, value)) with the
        path condition still asserted in the solver. kind is 'ok' or 'exc'."""
        prev = Engine.cur
        Engine.cur = self
        t0 = time.perf_counter()
        if prefix:
            self.plan = [(c, False) for c in prefix]
        try:
            while True:
                self._reset_path()
                try:
                    res = ("ok", fn())
                except EngineSignal as e:
                    res = ("sig", e)
                except Exception as e:  # noqa: BLE001 - the code under test may raise anything
                    res = ("exc", e)
                sig = self.abort
                if sig is not None:
                    res = ("sig", sig)
                if res[0] == "sig":
                    s = res[1]
                    if _isinstance(s, Pruned):
                        self.pruned += 1
                    elif _isinstance(s, UnwindExceeded):
                        self.unwind_failures.append(_str(s))
                    elif _isinstance(s, _Cut):
                        self.paths += 1
                        self.abort = None
                        on_path(self, ("cut", [c for c, _ in self.trail]))
                    else:
                        self.unsupported.append(f"{type(s).__name__}: {s}")
                else:
                    self.paths += 1
                    try:
                        on_path(self, res)
                    except SolverUnknown as e:
                        self.unsupported.append(f"SolverUnknown in assertion: {e}")
                    self.abort = None
                # backtrack
                t = self.trail
                while t and not (t[-1][1] and t[-1][0] is True):
                    t.pop()
                if not t:
                    break
                t[-1] = (False, False)
                self.plan = list(t)
                keep = len(t) - 1
                while self.depth > keep:
                    self.solver.pop()
                    self.depth -= 1
                if self.budget_s is not None and time.perf_counter() - t0 > self.budget_s:
                    self.exhausted = False
                    break
        finally:
            while self.depth > 0:
                self.solver.pop()
                self.depth -= 1
            Engine.cur = prev

    def prefixes(self, fn: Callable[[], Any], depth: int) -> List[List[bool]]:
        """Enumerate feasible decision prefixes of length <= depth (for splitting one
        exploration across workers). Paths shorter than depth yield their full trail."""
        out: List[List[bool]] = []
        self.cut_depth = depth

        def on_path(e, res):
            if res[0] == "cut":
                out.append(res[1])
            else:
                out.append([c for c, _ in e.trail])

        self.explore(fn, on_path)
        self.cut_depth = None
        self.plan = []
        return out

    # ------------------------------------------------------------- f-string tokens
    def render_int(self, term) -> str:
        """Return a real `str` token standing for the decimal rendering of a symbolic
        non-negative int: correct *length* (forks on digit count), canonical on the path
        (equal terms <=> equal tokens)."""
        term = z3.simplify(term)
        if z3.is_int_value(term):
            return _str(term.as_long())
        for t, tok in self.rendered:
            if z3.eq(t, term) or self.branch(t == term):
                return tok
        if self.render_opaque:
            tok = self._token_char()
            self.rendered.append((term, tok))
            self.tokens[tok] = term
            return tok
        if self.branch(term < 0):
            raise self._raise(Unsupported("negative integer rendered"))
        d = 1
        while d < self.render_digits and not self.branch(term < 10 ** d):
            d += 1
        if d == self.render_digits and not self.branch(term < 10 ** d):
            raise self._raise(Unsupported(f"rendered integer beyond {self.render_digits} digits"))
        tok = self._token_char() * d
        self.rendered.append((term, tok))
        self.tokens[tok] = term
        return tok

    CTL = [chr(c) for c in list(range(1, 9)) + list(range(14, 28))]

    def _token_char(self) -> str:
        k = len(self.rendered)
        if self.token_alphabet == "ctl":
            if self.char_alphabet == "c1" and k >= 8:
                raise self._raise(Unsupported("more than 8 distinct rendered integers on one path (ctl tokens + c1 chars)"))
            if k >= len(self.CTL):
                raise self._raise(Unsupported("more than 22 distinct rendered integers on one path"))
            return self.CTL[k]
        return chr(0xF0000 + k)

    def is_token_char(self, c: str) -> bool:
        o = ord(c)
        if self.token_alphabet == "ctl":
            return c in (self.CTL[:8] if self.char_alphabet == "c1" else self.CTL)
        return 0xF0000 <= o < 0x100000

    def term_of_text(self, s: str):
        """z3 Int term denoted by a rendered decimal text: a registered token run or plain digits."""
        if s in self.tokens:
            return self.tokens[s]
        if s.isascii() and s.isdigit():
            return z3.IntVal(_int(s))
        return None

    def render_char(self, term) -> str:
        """One-character placeholder (plane-16 private use) for a symbolic code point that
        flows through an f-string / real-str operation which does not inspect it."""
        for ch, t in self.chars.items():
            if z3.eq(t, term):
                return ch
        # code points the code AFTER the f-string is known to look for (e.g. CR/LF/NUL checks on the rendered text)
        # are materialised exactly: fork on each, return the real character
        for cp in self.sensitive_chars:
            if self.branch(term == cp):
                return chr(cp)
        if self.char_alphabet == "c1":
            # encoding classes differ: an ASCII char encodes identically in ascii/latin-1/utf-8, a char >= 0x80 does
            # not.  Fork on the class and use a placeholder of the same class.
            if self.branch(term < 0x80):
                pool = [chr(c) for c in range(14, 28)]
            elif self.branch(term <= 0xFF):
                pool = [chr(c) for c in range(0x80, 0xA0) if c != 0x85]
            else:
                pool = [chr(c) for c in range(0x100000, 0x100040)]  # beyond Latin-1: fails latin-1/ascii encoding like the real character
            used = [c for c in self.chars if c in pool]
            if len(used) >= len(pool):
                raise self._raise(Unsupported("too many symbolic characters rendered on one path (c1 alphabet)"))
            ch = pool[len(used)]
        else:
            ch = chr(0x100000 + len(self.chars))
        self.chars[ch] = term
        return ch


def cur() -> Engine:
    e = Engine.cur
    if e is None:
        raise RuntimeError("no active engine")
    return e


# ============================================================================ proxies
def _mkbool(e):
    e = z3.simplify(e)
    if z3.is_true(e):
        return True
    if z3.is_false(e):
        return False
    return SBool(e)


class SBool:
    __slots__ = ("e",)

    def __init__(self, e):
        self.e = e

    def __bool__(self):
        return cur().branch(self.e)

    def __invert__(self):
        return _mkbool(z3.Not(self.e))

    def __and__(self, o):
        return _mkbool(z3.And(self.e, term_of_bool(o)))

    __rand__ = __and__

    def __or__(self, o):
        return _mkbool(z3.Or(self.e, term_of_bool(o)))

    __ror__ = __or__

    def __eq__(self, o):
        return _mkbool(self.e == term_of_bool(o))

    def __ne__(self, o):
        return _mkbool(self.e != term_of_bool(o))

    def __hash__(self):
        return 0

    def __repr__(self):
        return f"SBool({self.e})"


def term_of_bool(x):
    if _isinstance(x, SBool):
        return x.e
    return z3.BoolVal(bool(x))


def term_of(x):
    """z3 Int term of an int / SInt."""
    if _isinstance(x, SInt):
        return x.e
    if _isinstance(x, bool):
        return z3.IntVal(_int(x))
    if _isinstance(x, _int):
        return z3.IntVal(x)
    raise Unsupported(f"term_of({type(x).__name__})")


def lift(x) -> "SInt":
    return x if _isinstance(x, SInt) else SInt(term_of(x))


def sym(x) -> bool:
    return _isinstance(x, (SInt, SBool))


class SInt:
    """Symbolic mathematical integer (Python int semantics; z3 Int)."""
    __slots__ = ("e",)

    def __init__(self, e):
        self.e = e if _isinstance(e, z3.ExprRef) else z3.IntVal(e)

    # -- arithmetic
    def _a(self, o, f):
        if _isinstance(o, float):
            raise cur()._raise(Unsupported("float arithmetic on SInt"))
        if not _isinstance(o, (SInt, _int)):
            return NotImplemented
        r = z3.simplify(f(self.e, term_of(o)))
        return SInt(r)

    def __add__(s, o): return s._a(o, lambda a, b: a + b)
    def __radd__(s, o): return s._a(o, lambda a, b: b + a)
    def __sub__(s, o): return s._a(o, lambda a, b: a - b)
    def __rsub__(s, o): return s._a(o, lambda a, b: b - a)
    def __mul__(s, o): return s._a(o, lambda a, b: a * b)
    def __rmul__(s, o): return s._a(o, lambda a, b: b * a)
    def __neg__(s): return SInt(z3.simplify(-s.e))
    def __pos__(s): return s

    def __floordiv__(s, o):
        if _isinstance(o, _int) and o > 0:
            return SInt(z3.simplify(s.e / o))  # z3 Int div: floor for positive divisor
        raise cur()._raise(Unsupported("floordiv by symbolic/non-positive"))

    def __mod__(s, o):
        if _isinstance(o, _int) and o > 0:
            return SInt(z3.simplify(s.e % o))
        raise cur()._raise(Unsupported("mod by symbolic/non-positive"))

    def __abs__(s):
        return SInt(z3.simplify(z3.If(s.e < 0, -s.e, s.e)))

    # -- comparisons
    def _c(self, o, f):
        if _isinstance(o, float):
            if o == _int(o):
                o = _int(o)
            else:
                raise cur()._raise(Unsupported("float comparison on SInt"))
        if not _isinstance(o, (SInt, _int)):
            return NotImplemented
        return _mkbool(f(self.e, term_of(o)))

    def __lt__(s, o): return s._c(o, lambda a, b: a < b)
    def __le__(s, o): return s._c(o, lambda a, b: a <= b)
    def __gt__(s, o): return s._c(o, lambda a, b: a > b)
    def __ge__(s, o): return s._c(o, lambda a, b: a >= b)

    def __eq__(s, o):
        r = s._c(o, lambda a, b: a == b)
        return False if r is NotImplemented else r

    def __ne__(s, o):
        r = s._c(o, lambda a, b: a != b)
        return True if r is NotImplemented else r

    def __hash__(s):
        return 0

    def __bool__(s):
        return cur().branch(s.e != 0)

    # -- conversions that CPython insists be real
    def _unique(self) -> int:
        """Concrete value if the path condition forces exactly one, else Unsupported."""
        e = cur()
        m = e.model()
        v = m.eval(self.e, True).as_long()
        if e.check(self.e != v):
            raise e._raise(Unsupported("concrete int required for a symbolic value"))
        return v

    def __index__(s): return s._unique()
    def __int__(s): return s._unique()

    def __str__(s): return cur().render_int(s.e)
    def __format__(s, spec):
        if spec not in ("", "d"):
            raise cur()._raise(Unsupported(f"format spec {spec!r} on SInt"))
        return cur().render_int(s.e)

    def __repr__(s): return f"SInt({s.e})"


def ite(c, a, b) -> SInt:
    """Symbolic if-then-else over ints without forking."""
    if _isinstance(c, bool):
        return lift(a if c else b)
    return SInt(z3.simplify(z3.If(term_of_bool(c), term_of(a), term_of(b))))


def smin(a, b):
    if not sym(a) and not sym(b):
        return builtins.min(a, b)
    return ite(lift(b) < lift(a), b, a)


def smax(a, b):
    if not sym(a) and not sym(b):
        return builtins.max(a, b)
    return ite(lift(b) > lift(a), b, a)


def all_of(conds) -> Any:
    ts = []
    for c in conds:
        if _isinstance(c, SBool):
            ts.append(c.e)
        elif not c:
            return False
    if not ts:
        return True
    return _mkbool(z3.And(ts))


def any_of(conds) -> Any:
    ts = []
    for c in conds:
        if _isinstance(c, SBool):
            ts.append(c.e)
        elif c:
            return True
    if not ts:
        return False
    return _mkbool(z3.Or(ts))


def conc(x, m: z3.ModelRef):
    """Evaluate a (possibly nested) proxy structure under a model into real Python values."""
    from .symseq import SBytes, SStr  # local import: avoid cycle
    if _isinstance(x, SInt):
        return m.eval(x.e, True).as_long()
    if _isinstance(x, SBool):
        return z3.is_true(m.eval(x.e, True))
    if _isinstance(x, SBytes):
        return _bytes(conc(i, m) for i in x.items)
    if _isinstance(x, SStr):
        return "".join(chr(conc(i, m)) for i in x.items)
    if _isinstance(x, _str):
        e = Engine.cur
        if e is not None and (e.tokens or e.chars) and any(ord(c) >= 0xF0000 or e.is_token_char(c) for c in x):
            return detoken(x, m, e)
        return x
    if _isinstance(x, tuple):
        return tuple(conc(i, m) for i in x)
    if _isinstance(x, list):
        return [conc(i, m) for i in x]
    if _isinstance(x, dict):
        return {conc(k, m): conc(v, m) for k, v in x.items()}
    return x


def detoken(s: str, m: z3.ModelRef, e: Engine) -> str:
    """Replace integer tokens / char placeholders in a real str by their model values."""
    out = []
    i = 0
    n = len(s)
    while i < n:
        c = s[i]
        o = ord(c)
        if e.is_token_char(c) and c not in e.chars:
            j = i
            while j < n and s[j] == c:
                j += 1
            tok = s[i:j] if not e.render_opaque else c
            if e.render_opaque:
                j = i + 1
            if tok not in e.tokens:
                raise RuntimeError(f"token run of length {j - i} not registered")
            v = m.eval(e.tokens[tok], True).as_long()
            r = _str(v)
            if not e.render_opaque and len(r) != j - i:
                raise RuntimeError("token length disagrees with model value")
            out.append(r)
            i = j
        elif c in e.chars:
            out.append(chr(m.eval(e.chars[c], True).as_long()))
            i += 1
        else:
            out.append(c)
            i += 1
    return "".join(out)
